"""Contracts for the per-element metadata of EAM tables (C03): [Species] overrides, else the built-in element table,
else the documented defaults (0.0, fcc) -- referencedata/_reference_data.py and the getters of the EAM builder."""
import z3
from .common import *
from .eam_common import *
from pyvc.values import SymDict, DictSort

F_RD = 'atsim/potentials/referencedata/_reference_data.py'
F_EB = 'atsim/potentials/config/_eam_potential_builder.py'
PropMap = T.Dict(T.Str, T.Val)
REG.add_class(ClassDecl('atsim/potentials/referencedata/_data.py', 'Element_Data', {'atomic_number': T.Int, 'atomic_mass': T.Real, 'covalent_radius': T.Real}, external=True))
REG.add_class(ClassDecl(F_RD, 'Reference_Data', {'extra_data': T.Dict(T.Str, PropMap)}))
ED, RD = ObjSort('Element_Data'), ObjSort('Reference_Data')
PM = PropMap.sort()
# the built-in table (module-level dict species -> Element_Data): an arbitrary table
BT_has = z3.Const('builtin_table.has', z3.ArraySort(StrS, BoolS)); BT_get = z3.Const('builtin_table.get', z3.ArraySort(StrS, ED))
ed_Z = field('Element_Data', 'atomic_number', IntS); ed_m = field('Element_Data', 'atomic_mass', RealS); ed_rc = field('Element_Data', 'covalent_radius', RealS)
ex_has = field('Reference_Data', 'extra_data.has', z3.ArraySort(StrS, BoolS)); ex_get = field('Reference_Data', 'extra_data.get', z3.ArraySort(StrS, PM))
S_Z, S_M, S_RC = z3.StringVal('atomic_number'), z3.StringVal('atomic_mass'), z3.StringVal('covalent_radius')

def builtin_has(sp, p): return z3.And(z3.Select(BT_has, sp), z3.Or(p == S_Z, p == S_M, p == S_RC))
def builtin_val(sp, p):
    e = z3.Select(BT_get, sp)
    return z3.If(p == S_Z, Val.VI(ed_Z(e)), z3.If(p == S_M, Val.VR(ed_m(e)), Val.VR(ed_rc(e))))
def override_has(rd, sp, p): return z3.And(z3.Select(ex_has(rd), sp), z3.Select(PM.has(z3.Select(ex_get(rd), sp)), p))
def override_val(rd, sp, p): return z3.Select(PM.get(z3.Select(ex_get(rd), sp)), p)
# C03 statement: "[Species] overrides, else the built-in element table"
def rd_has(rd, sp, p): return z3.Or(override_has(rd, sp, p), builtin_has(sp, p))
def rd_val(rd, sp, p): return z3.If(override_has(rd, sp, p), override_val(rd, sp, p), builtin_val(sp, p))
def known_species(rd, sp): return z3.Or(z3.Select(BT_has, sp), z3.Select(ex_has(rd), sp))

def _asdict_post(v, old, res):
    k = z3.String('k!ad')
    has, get = PM.has(res), PM.get(res)
    return [z3.ForAll([k], z3.Select(has, k) == z3.Or(k == S_Z, k == S_M, k == S_RC), patterns=[z3.Select(has, k)]),
            z3.Select(get, S_Z) == Val.VI(ed_Z(v.self)), z3.Select(get, S_M) == Val.VR(ed_m(v.self)), z3.Select(get, S_RC) == Val.VR(ed_rc(v.self))]
REG.add(Contract('<ext>', 'Element_Data._asdict', params=[('self', T.Obj('Element_Data'))], result=PropMap, ensures=_asdict_post, external=True,
    note='collections.namedtuple._asdict(): a fresh dict with exactly the field names as keys and the field values', props=['C03']))

def _get_raises(v, old, exc):
    if exc.cls == 'Unknown_Species_Exception': return [z3.Not(known_species(v.self, v.species))]
    return [z3.BoolVal(exc.cls == 'Unknown_Property_Exception'), z3.Not(rd_has(v.self, v.species, v.property_name))]
REG.add(Contract(F_RD, 'Reference_Data.get', params=[('self', T.Obj('Reference_Data')), ('species', T.Str), ('property_name', T.Str)], result=T.Val,
    ensures=lambda v, old, res: [rd_has(v.self, v.species, v.property_name), res == rd_val(v.self, v.species, v.property_name)],
    post_names=['returns-only-when-a-value-exists', 'override-else-built-in-table'],
    raises_when=_get_raises, on_raise=lambda v, old: [z3.Not(rd_has(v.self, v.species, v.property_name))],
    raises_classes=['Unknown_Species_Exception', 'Unknown_Property_Exception'],
    abstract_globals={'reference_data': SymDict(BT_has, BT_get, T.Str, T.Obj('Element_Data'))},
    carries=['post', 'raises'], props=['C03', 'C04', 'C19']))
FILE = F_RD

# ---------------------------------------------------------------- the EAM builder's getters: configuration error for Z and mass, documented defaults otherwise
REG.add_class(ClassDecl(F_EB, 'EAM_Potential_Builder', {'_reference_data': T.Obj('Reference_Data')}))
EB = ObjSort('EAM_Potential_Builder'); eb_rd = field('EAM_Potential_Builder', '_reference_data', RD)
def _getter(name, prop, default=None):
    P = z3.StringVal(prop)
    if default is None:
        REG.add(Contract(F_EB, 'EAM_Potential_Builder.' + name, params=[('self', T.Obj('EAM_Potential_Builder')), ('species', T.Str)], result=T.Val,
            ensures=lambda v, old, res: [rd_has(eb_rd(v.self), v.species, P), res == rd_val(eb_rd(v.self), v.species, P)],
            post_names=['returns-only-when-a-value-exists', 'override-else-built-in-table'],
            raises_when=lambda v, old, exc: [z3.BoolVal(exc.cls == 'ConfigurationException'), z3.Not(rd_has(eb_rd(v.self), v.species, P))],
            on_raise=lambda v, old: [z3.Not(rd_has(eb_rd(v.self), v.species, P))], raises_classes=['ConfigurationException'],
            carries=['post', 'raises'], props=['C03', 'C04', 'C16']))
    else:
        REG.add(Contract(F_EB, 'EAM_Potential_Builder.' + name, params=[('self', T.Obj('EAM_Potential_Builder')), ('species', T.Str)], result=T.Val,
            ensures=lambda v, old, res: [res == z3.If(rd_has(eb_rd(v.self), v.species, P), rd_val(eb_rd(v.self), v.species, P), to_val(default))],
            post_names=['override-else-built-in-table-else-documented-default'], raises_when=lambda v, old, exc: [z3.BoolVal(False)],
            carries=['post', 'raises'], props=['C03', 'C04']))
_getter('_get_mass', 'atomic_mass'); _getter('_get_atomic_number', 'atomic_number')
_getter('_get_lattice_constant', 'lattice_constant', z3.RealVal('0.0')); _getter('_get_lattice_type', 'lattice_type', z3.StringVal('fcc'))

def well_typed(rd, sp):
    """types of the metadata values: the built-in table is typed by its constructor; [Species] values are converted by
    ConfigParser._convert_species_type (C16) -- stated here as the precondition of building an EAMPotential"""
    def ty(prop, test): return z3.Implies(rd_has(rd, sp, z3.StringVal(prop)), test(rd_val(rd, sp, z3.StringVal(prop))))
    num = lambda x: z3.Or(Val.is_VR(x), Val.is_VI(x))
    return z3.And(ty('atomic_number', Val.is_VI), ty('atomic_mass', num), ty('lattice_constant', num), ty('lattice_type', Val.is_VS))
def as_real(x): return z3.If(Val.is_VI(x), z3.ToReal(Val.vi(x)), Val.vr(x))

def _create_post(v, old, res):
    rd, sp = eb_rd(v.self), v.species
    P = lambda s: z3.StringVal(s)
    return [EAM['species'](res) == sp,
            EAM['Z'](res) == Val.vi(rd_val(rd, sp, P('atomic_number'))),
            EAM['mass'](res) == as_real(rd_val(rd, sp, P('atomic_mass'))),
            EAM['a0'](res) == z3.If(rd_has(rd, sp, P('lattice_constant')), as_real(rd_val(rd, sp, P('lattice_constant'))), z3.RealVal(0)),
            EAM['lattice'](res) == z3.If(rd_has(rd, sp, P('lattice_type')), Val.vs(rd_val(rd, sp, P('lattice_type'))), z3.StringVal('fcc')),
            EAM['embed'](res) == z3.Select(v.embed_dict.get, sp), EAM['dens'](res) == z3.Select(v.density_dict.get, sp),
            rd_has(rd, sp, P('atomic_number')), rd_has(rd, sp, P('atomic_mass'))]
REG.add(Contract(F_EB, 'EAM_Potential_Builder._create_eam_potential',
    params=[('self', T.Obj('EAM_Potential_Builder')), ('species', T.Str), ('embed_dict', T.Dict(T.Str, T.Fn)), ('density_dict', T.Dict(T.Str, T.Fn))],
    requires=lambda v: [well_typed(eb_rd(v.self), v.species), z3.Select(v.embed_dict.has, v.species), z3.Select(v.density_dict.has, v.species)],
    result=T.Obj('EAMPotential'), ensures=_create_post,
    post_names=['species', 'atomic-number', 'mass', 'lattice-constant-default-0.0', 'lattice-type-default-fcc', 'embedding-function', 'density-function', 'has-Z', 'has-mass'],
    raises_when=lambda v, old, exc: [z3.BoolVal(exc.cls == 'ConfigurationException'),
                                     z3.Or(z3.Not(rd_has(eb_rd(v.self), v.species, z3.StringVal('atomic_number'))), z3.Not(rd_has(eb_rd(v.self), v.species, z3.StringVal('atomic_mass'))))],
    on_raise=lambda v, old: [], raises_classes=['ConfigurationException'], carries=['post', 'raises'], props=['C03', 'C04', 'C16']))

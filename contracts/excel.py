"""Contracts for the Excel writers (C04, C19; the workbook cache is C17's, contracts/excel_eam.py).

A worksheet is modelled by its abstract state (A6, openpyxl): the observable  cellv(S, row, col)  and the one update  put(S, row, col, value)
with the select-of-store axioms.  `ws["A1"] = v`, `ws.cell(row, col, value=v)` and `cell.value = v` for a cell handed out by `ws.iter_cols(..)` are
all that update (assumed contracts below: the three ways openpyxl offers to write one cell; a cell object writes through to the sheet it belongs to,
which is an obligation at each such store: `cell-of-this-sheet`).  `iter_cols(min_row=R, max_row=R, min_col=a, max_col=b)` yields the b-a+1 one-cell
columns (R, a) .. (R, b) in that order.

What is verified for every number of rows, every number of columns, any labels and callables:

  _populate_worksheet   A1 holds the name of the first column; row 1 holds label j in column j+2; row k+2 holds the k-th value x_k of the first column
                        in column 1 and  column_dict[label j](x_k)  in column j+2 -- the column HEADED by a label holds the function stored UNDER that label --
                        and no other cell of the sheet has changed (whole view, frame included).
"""
import z3
from .common import *

F_PT = FILE = 'atsim/potentials/pair_tabulation.py'
F_ET = 'atsim/potentials/eam_tabulation.py'

REG.add_class(ClassDecl('<ext>', 'Worksheet', {}, external=True, stateful=True))
REG.add_class(ClassDecl('<ext>', 'XlColumn', {'row': T.Int, 'col': T.Int}, external=True))
REG.add_class(ClassDecl('<ext>', 'XlCell', {'row': T.Int, 'col': T.Int}, external=True))
WS = ObjSort('Worksheet'); XC = ObjSort('XlColumn'); XE = ObjSort('XlCell')
cellv = z3.Function('cellv', WS, IntS, IntS, Val)               # observable: the value of the cell (row, column), 1-based
put = z3.Function('put', WS, IntS, IntS, Val, WS)               # the one update
sheet_of_col = z3.Function('sheet_of_column', XC, WS, BoolS)    # ghost: this column/cell object belongs to the sheet whose state is ... (identity is kept by put)
sheet_id = z3.Function('sheet_id', WS, IntS)
col_sheet = z3.Function('column_sheet_id', XC, IntS); cell_sheet = z3.Function('cell_sheet_id', XE, IntS)
col_row = field('XlColumn', 'row', IntS); col_col = field('XlColumn', 'col', IntS)
cell_row = field('XlCell', 'row', IntS); cell_col = field('XlCell', 'col', IntS)

def sheet_axioms():
    S = z3.Const('S!x', WS); r, c, r2, c2 = z3.Ints('r!x c!x r2!x c2!x'); v = z3.Const('v!x', Val)
    return [z3.ForAll([S, r, c, v, r2, c2], cellv(put(S, r, c, v), r2, c2) == z3.If(z3.And(r2 == r, c2 == c), v, cellv(S, r2, c2)), patterns=[cellv(put(S, r, c, v), r2, c2)]),
            z3.ForAll([S, r, c, v], sheet_id(put(S, r, c, v)) == sheet_id(S), patterns=[put(S, r, c, v)])]

_A6 = 'A6 openpyxl: '
REG.add(Contract('<ext>', 'Worksheet.__setitem__', params=[('self', T.Obj('Worksheet')), ('key', T.Str), ('value', T.Val)], modifies=['self'],
    requires=lambda v: [v.key == z3.StringVal('A1')], ensures=lambda v, old, res: [v.self == put(old.self, 1, 1, to_val(v.value))], external=True,
    note=_A6 + 'ws["A1"] = value writes the cell (1, 1) (only this coordinate is used)', props=['C19', 'C04']))
REG.add(Contract('<ext>', 'Worksheet.cell', params=[('self', T.Obj('Worksheet')), ('row', T.Int), ('column', T.Int), ('value', T.Val)], modifies=['self'],
    requires=lambda v: [v.row >= 1, v.column >= 1], ensures=lambda v, old, res: [v.self == put(old.self, v.row, v.column, to_val(v.value))], external=True,
    note=_A6 + 'ws.cell(row, column, value=v) writes that cell', props=['C19', 'C04']))
def _iter_cols_post(v, old, res):
    j = z3.Int('j!ic'); n = v.max_col - v.min_col + 1
    return [z3.Length(res) == z3.If(n >= 0, n, 0),
            z3.ForAll([j], z3.Implies(z3.And(0 <= j, j < z3.Length(res)), z3.And(col_row(res[j]) == v.min_row, col_col(res[j]) == v.min_col + j, col_sheet(res[j]) == sheet_id(v.self))),
                      patterns=[res[j]])]
REG.add(Contract('<ext>', 'Worksheet.iter_cols', params=[('self', T.Obj('Worksheet')), ('min_row', T.Int), ('max_row', T.Int), ('min_col', T.Int), ('max_col', T.Int)],
    requires=lambda v: [v.min_row == v.max_row, v.min_row >= 1, v.min_col >= 1], result=T.List(T.Obj('XlColumn')), ensures=_iter_cols_post, external=True,
    note=_A6 + 'iter_cols(min_row=R, max_row=R, min_col=a, max_col=b): the one-cell columns (R, a) .. (R, b), in this order, of this sheet (cells that did not exist are created empty: not observable through cellv)',
    props=['C19', 'C04']))
REG.add(Contract('<ext>', 'XlColumn.__getitem__', params=[('self', T.Obj('XlColumn')), ('key', T.Int)], result=T.Obj('XlCell'),
    requires=lambda v: [v.key == 0], ensures=lambda v, old, res: [cell_row(res) == col_row(v.self), cell_col(res) == col_col(v.self), cell_sheet(res) == col_sheet(v.self)], external=True,
    note=_A6 + 'column[0] of a one-row column: its only cell', props=['C19', 'C04']))
REG.add(Contract('<ext>', 'XlCell.value.setter', params=[('self', T.Obj('XlCell')), ('value', T.Val), ('owner', T.Obj('Worksheet'))], modifies=['owner'],
    requires=lambda v: [cell_sheet(v.self) == sheet_id(v.owner)], ensures=lambda v, old, res: [v.owner == put(old.owner, cell_row(v.self), cell_col(v.self), to_val(v.value))], external=True,
    note=_A6 + 'cell.value = v writes through to the sheet the cell belongs to (obligation: it is the one sheet in scope)', props=['C19', 'C04']))

# ---------------------------------------------------------------- _populate_worksheet
SL = z3.SeqSort(StrS); RL = z3.SeqSort(RealS)
def sheet_state(ws, ws0, name, xs, keys, d_get, jh, k, jc):
    """the sheet while it is being filled: A1 and jh labels of row 1; rows 2 .. k+1 complete; of row k+2 the first column and jc function columns
    (jc None: row k+2 not started); every other cell as in ws0"""
    r, c = z3.Ints('r!b c!b'); m = z3.Length(keys)
    head = lambda r_, c_: z3.And(r_ == 1, z3.Or(c_ == 1, z3.And(2 <= c_, c_ < 2 + jh)))
    full = lambda r_, c_: z3.And(2 <= r_, r_ < 2 + k, 1 <= c_, c_ < 2 + m)
    cur = (lambda r_, c_: z3.And(r_ == 2 + k, z3.Or(c_ == 1, z3.And(2 <= c_, c_ < 2 + jc)))) if jc is not None else (lambda r_, c_: z3.BoolVal(False))
    val = lambda r_, c_: z3.If(r_ == 1, z3.If(c_ == 1, Val.VS(name), Val.VS(keys[c_ - 2])),
                               z3.If(c_ == 1, Val.VR(xs[r_ - 2]), Val.VR(app(z3.Select(d_get, keys[c_ - 2]), xs[r_ - 2]))))
    written = lambda r_, c_: z3.Or(head(r_, c_), full(r_, c_), cur(r_, c_))
    return [z3.ForAll([r, c], z3.Implies(written(r, c), cellv(ws, r, c) == val(r, c)), patterns=[cellv(ws, r, c)]),
            z3.ForAll([r, c], z3.Implies(z3.Not(written(r, c)), cellv(ws, r, c) == cellv(ws0, r, c)), patterns=[cellv(ws, r, c)]),
            sheet_id(ws) == sheet_id(ws0)]
def _pw_pre(v):
    j = z3.Int('j!pp')
    return [z3.ForAll([j], z3.Implies(z3.And(0 <= j, j < z3.Length(v.column_keys)), v.column_dict.has[v.column_keys[j]]), patterns=[v.column_keys[j]])]
def _st(v, old, jh, k, jc): return sheet_state(v.ws, old.ws, v.first_col_name, v.first_col_values, v.column_keys, v.column_dict.get, jh, k, jc)
def _pw_inv0(v, old): return _st(v, old, v._i0, z3.IntVal(0), None)
def _pw_inv1(v, old): return _st(v, old, z3.Length(v.column_keys), v._i1, None)
def _pw_inv2(v, old): return _st(v, old, z3.Length(v.column_keys), v._i1, v._i2)
def populated(ws, ws0, name, xs, keys, d_get):
    """the statement for one sheet: header row, first column, one function column per label, nothing else touched"""
    r, c = z3.Ints('r!p c!p'); m = z3.Length(keys); n = z3.Length(xs)
    inside = lambda r_, c_: z3.And(1 <= r_, r_ < 2 + n, 1 <= c_, c_ < 2 + m)
    return [cellv(ws, 1, 1) == Val.VS(name),
            z3.ForAll([c], z3.Implies(z3.And(2 <= c, c < 2 + m), cellv(ws, 1, c) == Val.VS(keys[c - 2])), patterns=[cellv(ws, 1, c)]),
            z3.ForAll([r], z3.Implies(z3.And(2 <= r, r < 2 + n), cellv(ws, r, 1) == Val.VR(xs[r - 2])), patterns=[cellv(ws, r, 1)]),
            z3.ForAll([r, c], z3.Implies(z3.And(2 <= r, r < 2 + n, 2 <= c, c < 2 + m), cellv(ws, r, c) == Val.VR(app(z3.Select(d_get, keys[c - 2]), xs[r - 2]))), patterns=[cellv(ws, r, c)]),
            z3.ForAll([r, c], z3.Implies(z3.Not(inside(r, c)), cellv(ws, r, c) == cellv(ws0, r, c)), patterns=[cellv(ws, r, c)]),
            sheet_id(ws) == sheet_id(ws0)]
REG.add(Contract(F_PT, 'Excel_PairTabulation._populate_worksheet',
    params=[('self', T.Any), ('ws', T.Obj('Worksheet')), ('first_col_name', T.Str), ('first_col_values', T.List(T.Real)), ('column_keys', T.List(T.Str)), ('column_dict', T.Dict(T.Str, T.Fn))],
    modifies=['ws'], requires=_pw_pre, ensures=lambda v, old, res: populated(v.ws, old.ws, v.first_col_name, v.first_col_values, v.column_keys, v.column_dict.get),
    post_names=['A1-names-the-first-column', 'row-1-holds-the-labels-in-order', 'column-1-holds-the-grid', 'column-headed-by-a-label-holds-the-function-stored-under-that-label', 'no-other-cell-changed', 'same-sheet'],
    invariants={0: _pw_inv0, 1: _pw_inv1, 2: _pw_inv2}, definitions=sheet_axioms, on_raise=lambda v, old: [],
    carries=['post', 'preserve/0', 'preserve/1', 'preserve/2'], props=['C19', 'C04']))

# ---------------------------------------------------------------- Excel_EAMTabulation._add_eam_embed / _add_eam_density: which (label, function) pairs on which grid
from .eam_common import *
from . import excel_eam as XE_                      # class table of Excel_EAMTabulation (C17: the workbook cache)
from pyvc.spec import SpecSeq, SpecAcc
from . import builders_eam as BE_                  # A4: sorted(set of str)
REG.add_class(ClassDecl('<ext>', 'Workbook', {}, external=True))
REG.add_class(ClassDecl(F_PT, 'Excel_PairTabulation', {}))
_X = REG.classes['Excel_EAMTabulation']
_X.fields.update({'_eam_potentials': T.List(T.Obj('EAMPotential')), '_nrho': T.Int, '_cutoff_rho': T.Real, '_nr': T.Int, '_cutoff': T.Real})
XT = ObjSort('Excel_EAMTabulation_W')
REG.add_class(ClassDecl(F_ET, 'Excel_EAMTabulation_W', {'_inner_tabulation': T.Obj('Excel_PairTabulation'), '_eam_potentials': T.List(T.Obj('EAMPotential')),
                                                      '_nrho': T.Int, '_cutoff_rho': T.Real, '_nr': T.Int, '_cutoff': T.Real}, pyname='Excel_EAMTabulation'))
x_eams = field('Excel_EAMTabulation_W', '_eam_potentials', EamList)
x_nrho = field('Excel_EAMTabulation_W', '_nrho', IntS); x_crho = field('Excel_EAMTabulation_W', '_cutoff_rho', RealS)
x_nr = field('Excel_EAMTabulation_W', '_nr', IntS); x_cut = field('Excel_EAMTabulation_W', '_cutoff', RealS)
sheet_title = z3.Function('sheet_title', WS, StrS)
EMPTYV = Val.VN
def title_axioms():
    S = z3.Const('S!t', WS); r, c = z3.Ints('r!t c!t'); v = z3.Const('v!t', Val)
    return [z3.ForAll([S, r, c, v], sheet_title(put(S, r, c, v)) == sheet_title(S), patterns=[put(S, r, c, v)])]
def _fresh_sheet(ws, title):
    r, c = z3.Ints('r!f c!f')
    return [sheet_title(ws) == title, z3.ForAll([r, c], cellv(ws, r, c) == EMPTYV, patterns=[cellv(ws, r, c)])]
REG.add(Contract('<ext>', 'Workbook.create_sheet', params=[('self', T.Obj('Workbook')), ('title', T.Str)], result=T.Obj('Worksheet'),
    ensures=lambda v, old, res: _fresh_sheet(res, v.title), external=True,
    note=_A6 + 'wb.create_sheet(title): a new, empty sheet of that title appended to the workbook', props=['C19', 'C04']))
# the grid generators: value k is k * cutoff / (n - 1)
grid_seq = SpecSeq('excel_grid', [RealS, IntS], lambda cut, n, k: z3.Unit(real(k) * cut / (real(n) - 1)), result=RL, elem_len=1)
# index of the LAST of the first t potentials whose species is s; -1 if none
eam_find = SpecAcc('eam_find', [EamList, StrS], lambda es, s: z3.IntVal(-1), lambda es, s, t, prev: z3.If(EAM['species'](es[t]) == s, t, prev), result=IntS)
def _label_dict(d, es, n, which):
    """the dictionary built from the first n potentials: a species is a key iff some potential has it, and then it maps to the function of the LAST such potential"""
    s = z3.String('s!ld'); i = eam_find(es, s, n)
    return [z3.ForAll([s], z3.And(z3.Select(d.has, s) == (i >= 0), z3.Implies(i >= 0, z3.Select(d.get, s) == EAM[which](es[i]))), patterns=[z3.Select(d.has, s)])]
def _sheet_post(which, title, first, cut, n):
    def post(v, old, res):
        es = x_eams(v.self); d = v.pot_dict; keys = v.column_heads
        ws0 = z3.Const('created!' + title, WS)
        return (_label_dict(d, es, z3.Length(es), which) + [keys == BE_.sorted_strs(d.has)] +
                [z3.Exists([ws0], z3.And(*(_fresh_sheet(ws0, z3.StringVal(title)) + populated(v.ws, ws0, z3.StringVal(first), grid_seq(cut(v.self), n(v.self), n(v.self)), keys, d.get))))])
    return post
for _m, _which, _title, _first, _cut, _n in (('_add_eam_embed', 'embed', 'EAM-Embed', 'rho', x_crho, x_nrho), ('_add_eam_density', 'dens', 'EAM-Density', 'r', x_cut, x_nr)):
    REG.add(Contract(F_ET, 'Excel_EAMTabulation.' + _m, params=[('self', T.Obj('Excel_EAMTabulation_W')), ('wb', T.Obj('Workbook'))],
        requires=lambda v, _n=_n: [_n(v.self) >= 2],
        ensures=_sheet_post(_which, _title, _first, _cut, _n),
        invariants={0: lambda v, old, _which=_which: _label_dict(v.pot_dict, x_eams(v.self), v._i0, _which)},
        ghost={'pot_dict': T.Dict(T.Str, T.Fn)}, definitions=lambda: sheet_axioms() + title_axioms() + BE_.sorted_axioms(), on_raise=lambda v, old: [],
        carries=['post', 'preserve/0'], props=['C19']))

# ---------------------------------------------------------------- the two grid generators (eager view: the list of the values they yield)
for _f, _q, _n, _c in ((F_PT, '_r_value_iterator', x_nr, x_cut), (F_ET, '_rho_value_iterator', x_nrho, x_crho)):
    REG.add(Contract(_f, _q, params=[('tabulation', T.Obj('Excel_EAMTabulation_W'))], requires=lambda v, _n=_n: [_n(v.tabulation) >= 2], result=T.List(T.Real), generator=True,
        ensures=lambda v, old, res, _n=_n, _c=_c: [res == grid_seq(_c(v.tabulation), _n(v.tabulation), _n(v.tabulation))],
        post_names=['value-k-is-k*cutoff/(n-1)-for-k-in-0..n-1'],
        invariants={0: lambda v, old, _n=_n, _c=_c: [v.yielded == grid_seq(_c(v.tabulation), _n(v.tabulation), v._i0)]},
        ghost={'yielded': T.Real}, carries=['post', 'preserve/0'], props=['C19', 'C11'],
        note='verified for the EAM spreadsheet tabulation object (nr, cutoff, nrho, cutoff_rho are its read-only properties of the constructor arguments); the pair spreadsheet passes an object with the same two properties'))

# ---------------------------------------------------------------- Excel_FinnisSinclair_EAMTabulation._add_eam_density (C04): the column headed "A->B"
from pyvc.symexec import str_of_text, keys_list_fn
FSE = eam('EAMPotential')
def fs_label(a, b): return str_of_text(tok("{}->{}", a, b))          # the text "{}->{}".format(a, b) as a key
keys_of = keys_list_fn(T.Str)
label_central = z3.Function('label_central', StrS, StrS); label_neighbour = z3.Function('label_neighbour', StrS, StrS)    # ghost projections of a label "A->B"
def _fs_pre(v):
    es = x_eams(v.self); i, j = z3.Ints('i!fp j!fp'); a, b, a2, b2 = z3.Strings('a!fp b!fp a2!fp b2!fp')
    return [x_nr(v.self) >= 2,
            # the potentials are of pairwise different species, and the label text determines the pair (labels do not contain "->")
            z3.ForAll([i, j], z3.Implies(z3.And(0 <= i, i < j, j < z3.Length(es)), FSE['species'](es[i]) != FSE['species'](es[j]))),
            # (stated through the two projections of a label: injectivity follows by congruence, with one-term triggers)
            z3.ForAll([a, b], z3.And(label_central(fs_label(a, b)) == a, label_neighbour(fs_label(a, b)) == b), patterns=[fs_label(a, b)])]
def _fs_done(d, es, k):
    """every declared density of the first k potentials is in the dictionary under the label of its pair"""
    i = z3.Int('i!fd'); b = z3.String('b!fd')
    return [z3.ForAll([i, b], z3.Implies(z3.And(0 <= i, i < k, z3.Select(FSE['dens_has'](es[i]), b)),
                                         z3.And(z3.Select(d.has, fs_label(FSE['species'](es[i]), b)), z3.Select(d.get, fs_label(FSE['species'](es[i]), b)) == z3.Select(FSE['dens_get'](es[i]), b))),
                      patterns=[z3.Select(FSE['dens_has'](es[i]), b)])]
def _fs_only(d, es, k, extra=None):
    """nothing else is in it"""
    K = z3.String('K!fo'); i = z3.Int('i!fo'); b = z3.String('b!fo')
    ex = z3.Exists([i, b], z3.And(0 <= i, i < k, z3.Select(FSE['dens_has'](es[i]), b), K == fs_label(FSE['species'](es[i]), b)))
    return [z3.ForAll([K], z3.Implies(z3.Select(d.has, K), z3.Or(ex, extra(K)) if extra else ex), patterns=[z3.Select(d.has, K)])]
def _fs_inv0(v, old): return _fs_done(v.pot_dict, x_eams(v.self), v._i0) + _fs_only(v.pot_dict, x_eams(v.self), v._i0)
def _fs_inv1(v, old):
    es = x_eams(v.self); k = v._i0; p = es[k]; lst = keys_of(FSE['dens_has'](p)); j = z3.Int('j!f1'); d = v.pot_dict
    cur = [z3.ForAll([j], z3.Implies(z3.And(0 <= j, j < v._i1), z3.And(z3.Select(d.has, fs_label(FSE['species'](p), lst[j])),
                                                                       z3.Select(d.get, fs_label(FSE['species'](p), lst[j])) == z3.Select(FSE['dens_get'](p), lst[j]))), patterns=[lst[j]])]
    return _fs_done(d, es, k) + cur + _fs_only(d, es, k, extra=lambda K: z3.Exists([j], z3.And(0 <= j, j < v._i1, K == fs_label(FSE['species'](p), lst[j])))) + [v.species_f == FSE['species'](p)]
def _fs_post(v, old, res):
    es = x_eams(v.self); d = v.pot_dict; keys = v.column_heads; ws0 = z3.Const('created!fs', WS)
    return (_fs_done(d, es, z3.Length(es)) + _fs_only(d, es, z3.Length(es)) + [keys == BE_.sorted_strs(d.has)] +
            [z3.Exists([ws0], z3.And(*(_fresh_sheet(ws0, z3.StringVal('EAM-Density')) + populated(v.ws, ws0, z3.StringVal('r'), grid_seq(x_cut(v.self), x_nr(v.self), x_nr(v.self)), keys, d.get))))])
REG.add_class(ClassDecl(F_ET, 'Excel_FinnisSinclair_EAMTabulation', {}, bases=['Excel_EAMTabulation_W']))
REG.add(Contract(F_ET, 'Excel_FinnisSinclair_EAMTabulation._add_eam_density', params=[('self', T.Obj('Excel_EAMTabulation_W')), ('wb', T.Obj('Workbook'))],
    requires=_fs_pre, ensures=_fs_post,
    post_names=['every-declared-A->B-density-is-stored-under-the-label-A->B', 'no-other-label', 'columns-are-the-sorted-labels', 'sheet-EAM-Density-filled-with-them-on-the-r-grid'],
    invariants={0: _fs_inv0, 1: _fs_inv1}, ghost={'pot_dict': T.Dict(T.Str, T.Fn)}, definitions=lambda: sheet_axioms() + title_axioms() + BE_.sorted_axioms(), on_raise=lambda v, old: [],
    carries=['post', 'preserve/0', 'preserve/1'], props=['C04', 'C19']))

# ---------------------------------------------------------------- Excel_PairTabulation._add_pair_worksheet (C19): the column headed "A-B" (labels sorted within the pair)
REG.add_class(ClassDecl(F_PT, 'Excel_PairTabulation_W', {'_potentials': T.List(T.Obj('Potential')), '_nr': T.Int, '_cutoff': T.Real}, pyname='Excel_PairTabulation'))
p_pots = field('Excel_PairTabulation_W', '_potentials', PotList); p_nr = field('Excel_PairTabulation_W', '_nr', IntS); p_cut = field('Excel_PairTabulation_W', '_cutoff', RealS)
def pair_label(a, b): return str_of_text(tok("{}-{}", a, b))
def _pl_pre(v):
    a, b = z3.Strings('a!pl b!pl')
    return [p_nr(v.self) >= 2, z3.ForAll([a, b], z3.And(label_central(pair_label(a, b)) == a, label_neighbour(pair_label(a, b)) == b), patterns=[pair_label(a, b)])]
def _pair_dict(d, ps, n):
    """a label is a key iff it is the label of the unordered species pair of one of the first n potentials, and then it maps to the energy function of the LAST such potential"""
    K = z3.String('K!pd'); a, b = label_central(K), label_neighbour(K); i = find(ps, a, b, n)
    ok = z3.And(K == pair_label(a, b), a <= b, i >= 0)
    return [z3.ForAll([K], z3.And(z3.Select(d.has, K) == ok, z3.Implies(ok, z3.Select(d.get, K) == pot_fn(ps[i]))))]      # (no explicit pattern: the stored keys contain conditional terms)
def _pl_post(v, old, res):
    ps = p_pots(v.self); d = v.pot_dict; keys = v.column_heads; ws0 = z3.Const('created!pair', WS)
    return (_pair_dict(d, ps, z3.Length(ps)) + [keys == BE_.sorted_strs(d.has)] +
            [z3.Exists([ws0], z3.And(*(_fresh_sheet(ws0, z3.StringVal('Pair')) + populated(v.ws, ws0, z3.StringVal('r'), grid_seq(p_cut(v.self), p_nr(v.self), p_nr(v.self)), keys, d.get))))])
REG.add(Contract(F_PT, '_r_value_iterator@pair', params=[('tabulation', T.Obj('Excel_PairTabulation_W'))], requires=lambda v: [p_nr(v.tabulation) >= 2], result=T.List(T.Real), generator=True,
    ensures=lambda v, old, res: [res == grid_seq(p_cut(v.tabulation), p_nr(v.tabulation), p_nr(v.tabulation))],
    invariants={0: lambda v, old: [v.yielded == grid_seq(p_cut(v.tabulation), p_nr(v.tabulation), v._i0)]}, ghost={'yielded': T.Real}, carries=['post', 'preserve/0'], props=['C19', 'C11']))
REG.add(Contract(F_PT, 'Excel_PairTabulation._add_pair_worksheet', params=[('self', T.Obj('Excel_PairTabulation_W')), ('wb', T.Obj('Workbook'))],
    requires=_pl_pre, ensures=_pl_post, post_names=['label-of-the-unordered-pair-holds-the-last-declared-function', 'columns-are-the-sorted-labels', 'sheet-Pair-filled-with-them-on-the-r-grid'],
    invariants={0: lambda v, old: _pair_dict(v.pot_dict, p_pots(v.self), v._i0)}, ghost={'pot_dict': T.Dict(T.Str, T.Fn)},
    definitions=lambda: sheet_axioms() + title_axioms() + BE_.sorted_axioms(), on_raise=lambda v, old: [], carries=['post', 'preserve/0'], props=['C19']))

# ---------------------------------------------------------------- Excel_PairTabulation._build_workbook (C17/C19): a workbook that could not be completed is not kept
REG.classes['Excel_PairTabulation'].fields.update({'_workbook': T.Opt(T.Obj('Workbook'))})
REG.add(Contract('<ext>', 'Workbook.__init__', params=[('self', T.Obj('Workbook'))], external=True, note=_A6 + 'Workbook(): a new workbook with one active sheet', props=['C19', 'C17']))
REG.add(Contract('<ext>', 'Workbook.remove', params=[('self', T.Obj('Workbook')), ('sheet', T.Any)], external=True, note=_A6 + 'wb.remove(sheet)', props=['C19', 'C17']))
REG.add(Contract(F_PT, 'Excel_PairTabulation._add_worksheets', params=[('self', T.Any), ('wb', T.Obj('Workbook'))], trusted=True, on_raise=lambda v, old: [],
    note='adds the Pair sheet by evaluating the model functions (verified as _add_pair_worksheet under its own contract): any evaluation may raise', props=['C19', 'C17']))
def _kept_nothing(v, old):
    rec = v._ex.deref(v._frame['self'], v._st)
    w = rec.fields.get('_workbook')
    return [z3.BoolVal(w is None or type(v._ex.deref(w, v._st)).__name__ == 'NoneV')]
REG.add(Contract(F_PT, 'Excel_PairTabulation._build_workbook', params=[('self', T.New('Excel_PairTabulation'))], result=T.Obj('Workbook'),
    on_raise=_kept_nothing, raises_when=lambda v, old, exc: [z3.BoolVal(True)], carries=['on_raise'], props=['C19', 'C17'],
    note='when filling the sheets raises, the object has not kept the workbook under construction (the `workbook` property stores it only once complete)'))

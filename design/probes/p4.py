import io, warnings, logging, math
warnings.simplefilter("ignore"); logging.disable(logging.CRITICAL)
from atsim.potentials import Potential, EAMPotential, writePotentials, writeSetFL, writeSetFLFinnisSinclair, writeTABEAM, writeTABEAMFinnisSinclair, writeFuncFL
from atsim.potentials.eam_tabulation import ADP_EAMTabulation, SetFL_EAMTabulation, SetFL_FS_EAMTabulation
ok=True
def chk(c, msg):
    global ok
    if not c: ok=False; print("MISMATCH", msg)
# ---- C02
f=lambda r: 3.0/r + 0.5*r*r
f.deriv=lambda r: -3.0/r**2 + r
o=io.StringIO(); writePotentials('DL_POLY',[Potential('Aa','Bb',f)], 6.0, 16, o)
L=o.getvalue().split("\n")
h=L[1].split(); delpot=float(h[0]); cut=float(h[1]); ng=int(h[2])
chk(abs(delpot-6.0/12)<1e-9 and cut==6.0 and ng==16, "C02 header %s"%h)
chk(L[2]=="%8s%8s"%("Aa","Bb"), "C02 species line")
vals=[float(x) for ln in L[3:] for x in ln.split()]
chk(len(vals)==32, "C02 count %d"%len(vals))
for k in range(16):
    r=(k+1)*delpot
    chk(abs(vals[k]-f(r))<=1e-6*abs(f(r)), "C02 E[%d]"%k)
    chk(abs(vals[16+k]-(-r*f.deriv(r)))<=1e-6*abs(r*f.deriv(r))+1e-12, "C02 F[%d] %g vs %g"%(k, vals[16+k], -r*f.deriv(r)))
# ---- C03 setfl 3 elements
def F(c): return lambda rho: c+rho
def D(c): return lambda r: c+0.1*r
els=['Zn','Al','Cu']
eam=[EAMPotential(e, 10+i, 20.0+i, F(100*(i+1)), D(10*(i+1)), 3.0+i, 'bcc') for i,e in enumerate(els)]
pp=[Potential('Al','Zn', lambda r: 7.0), Potential('Cu','Cu', lambda r: 9.0)]
o=io.StringIO(); SetFL_EAMTabulation(pp, eam, 4.0, 5, 6.0, 4).write(o)
L=o.getvalue().split("\n")
chk(L[3].split()==['3']+els, "C03 line4 "+L[3])
h=L[4].split(); chk(int(h[0])==4 and abs(float(h[1])-2.0)<1e-12 and int(h[2])==5 and abs(float(h[3])-1.0)<1e-12, "C03 grid "+L[4])
pos=5
for i,e in enumerate(els):
    m=L[pos].split(); chk(int(m[0])==10+i and float(m[1])==20.0+i and float(m[2])==3.0+i and m[3]=='bcc', "C03 meta"); pos+=1
    for k in range(4): chk(float(L[pos])==100*(i+1)+k*2.0, "C03 embed"); pos+=1
    for k in range(5): chk(abs(float(L[pos])-(10*(i+1)+0.1*k*1.0))<1e-12, "C03 dens"); pos+=1
exp={(0,0):0.0,(1,0):7.0,(1,1):0.0,(2,0):0.0,(2,1):0.0,(2,2):9.0}
for i in range(3):
    for j in range(i+1):
        for k in range(5): chk(abs(float(L[pos])-exp[(i,j)]*k*1.0)<1e-12, "C03 pair %d%d"%(i,j)); pos+=1
chk(L[pos:]==[''], "C03 trailing %r"%L[pos:])
# ---- C04 FS asymmetric
def d(a,b): return lambda r, v=10*(els.index(a)+1)+els.index(b)+1: float(v)
eamfs=[EAMPotential(e, 10+i, 20.0+i, F(0), {b:d(e,b) for b in els}) for i,e in enumerate(els)]
o=io.StringIO(); SetFL_FS_EAMTabulation([], eamfs, 4.0, 3, 6.0, 2).write(o)
L=o.getvalue().split("\n"); pos=5
for i,X in enumerate(els):
    pos+=1+2
    for k,A in enumerate(els):   # slot k in block X = density at A site due to X neighbour = d(A,X)
        for n in range(3): chk(float(L[pos])==10*(els.index(A)+1)+els.index(X)+1, "C04 setfl_fs block %s slot %s: %s"%(X,A,L[pos])); pos+=1
o=io.StringIO(); writeTABEAMFinnisSinclair(2, 3.0, 3, 2.0, eamfs, [], o)
T=o.getvalue().split("\n")
chk(int(T[1])==3*3*4//2, "C05 eeam count "+T[1])
blocks=[ln.split() for ln in T if ln[:4] in ('pair','embe','dens')]
chk(len(blocks)==int(T[1]), "C05 eeam nblocks %d"%len(blocks))
for i,ln in enumerate(T):
    if ln.startswith('dens'):
        _,A,B,n,lo,hi=ln.split(); v=float(T[i+1].split()[0])
        chk(v==10*(els.index(A)+1)+els.index(B)+1, "C04 tabeam dens %s %s = %s"%(A,B,v)); chk(int(n)==3 and float(hi)==4.0, "C05 hdr")
# ---- C05 EAM
o=io.StringIO(); writeTABEAM(5, 1.5, 6, 0.5, eam, pp, o); T=o.getvalue().split("\n")
chk(int(T[1])==3*8//2, "C05 count"); blocks=[ln for ln in T if ln[:4] in ('pair','embe','dens')]; chk(len(blocks)==12, "C05 nblocks %d"%len(blocks))
# values of first pair block
i=2; hdr=T[i].split(); n=int(hdr[3]); vals=[]
j=i+1
while len(vals)<n: vals+= [float(x) for x in T[j].split()]; j+=1
chk(len(vals)==n and T[j][:4] in('pair','embe','dens'), "C05 exactly n values then next block")
# ---- C19 GULP / ADP / funcfl
o=io.StringIO(); writePotentials('GULP',[Potential('A','B',lambda r: 2*r)], 3.0, 7, o); G=o.getvalue().split("\n")
chk(G[0]=='spline cubic' and G[1]=='A B 3.0' and len(G)==2+7+1, "C19 gulp shape")
for i in range(7):
    e,r=map(float,G[2+i].split()); chk(abs(r-i*0.5)<1e-9 and abs(e-2*r)<1e-9, "C19 gulp row")
eam2=eam[:2]
o=io.StringIO(); ADP_EAMTabulation(pp, eam2, [Potential('Al','Zn', lambda r: 5.0)], [], 4.0, 5, 6.0, 4).write(o)
o2=io.StringIO(); SetFL_EAMTabulation(pp, eam2, 4.0, 5, 6.0, 4).write(o2)
chk(o.getvalue().startswith(o2.getvalue()), "C19 adp prefix")
rest=[float(x) for x in o.getvalue()[len(o2.getvalue()):].split()]
chk(len(rest)==2*3*5, "C19 adp count %d"%len(rest))
chk(rest[:5]==[0.0]*5 and rest[5:10]==[5.0]*5 and rest[10:15]==[0.0]*5 and rest[15:]==[0.0]*15, "C19 adp values %s"%rest)
phi=lambda r: 4.0/(1+r)
o=io.StringIO(); writeFuncFL(3, 2.0, 4, 0.5, [eam[0]], [Potential('Zn','Zn',phi)], o, "t"); FL=o.getvalue().split("\n")
h=FL[2].split(); chk(int(h[0])==3 and float(h[1])==2.0 and int(h[2])==4 and float(h[3])==0.5 and float(h[4])==1.5, "C19 funcfl hdr "+FL[2])
nums=[float(x) for ln in FL[3:] for x in ln.split()]
chk(len(nums)==3+4+4, "C19 funcfl count")
for k in range(1,4):
    r=k*0.5; z=nums[3+k]; chk(abs(z*z*27.2*0.529/r-phi(r))<1e-9, "C19 funcfl charge")
print("ALL OK" if ok else "SOME MISMATCH")

"""Conformance self-test of the symbolic executor against CPython (DESIGN 2.6).

Each snippet of pyvc/selftest/snippets.py is run by CPython and by the executor on the same literal inputs:
  CPython returns r   -> the contract  {inputs = literals} f {result == r, nothing raised}  must verify, and the contract with
                         result != r must NOT verify (guards against a vacuous path condition);
  CPython raises E    -> the executor must produce a feasible exceptional exit of class E (or flag the site with a failing
                         safety obligation: index / unpack / division), and no feasible normal exit.
A disagreement is reported as a checker error by every check (the engine is then not to be believed)."""
import os, sys, random, time, importlib.util, fractions
import z3
from .core import *
from .values import T
from .registry import Contract
from .extract import Module
from . import symexec, solve

SNIP = os.path.join(os.path.dirname(os.path.abspath(__file__)), 'selftest', 'snippets.py')

def _ints(rng): return rng.choice([-7, -3, -2, -1, 0, 1, 2, 3, 4, 5, 9, 12])
def _pos(rng): return rng.choice([1, 2, 3, 4, 5, 7])
def _small(rng): return rng.choice([0, 1, 2, 3, 4, 5])
def _flt(rng): return rng.choice([-2.5, -1.25, -0.5, 0.0, 0.125, 0.5, 0.75, 1.0, 1.5, 2.25, 3.0, 6.5])
def _pflt(rng): return rng.choice([0.125, 0.25, 0.5, 1.0, 2.0, 4.0])
def _str(rng): return rng.choice(['', 'a', 'ab', 'b', 'Zn', 'zn', 'O', 'Al', 'a b', 'B'])
def _ilist(rng): return [rng.choice([-2, -1, 0, 1, 2, 3, 5]) for _ in range(rng.randint(0, 4))]
def _ilist1(rng): return [rng.choice([-2, -1, 0, 1, 2, 3, 5]) for _ in range(rng.randint(1, 4))]
def _slist(rng): return [_str(rng) for _ in range(rng.randint(0, 3))]
def _bool(rng): return rng.choice([True, False])
def _optint(rng): return rng.choice([None, -1, 0, 3, 8])
def _dec(rng): return rng.choice([0.004, 0.005, 0.015, 0.125, 0.375, 1.005, 2.675, -0.125, -1.5, 2.5, 0.5, 1.5, 3.14159])
def _step(rng): return rng.choice([0.1, 0.01, 0.25, 0.001, 0.3])
def _cut(rng): return rng.choice([1.0, 2.5, 6.5, 10.0, 0.3, 12.3])

I, R, B, S = T.Int, T.Real, T.Bool, T.Str
LI, LS, MLI = T.List(T.Int), T.List(T.Str), T.MList(T.Int)
CASES = [
    ('floordiv_mod', [('a', I, _ints), ('b', I, _pos)], I), ('floordiv_mod', [('a', I, _ints), ('b', I, lambda r: -_pos(r))], I),
    ('int_pow', [('a', I, _ints), ('n', I, _small)], I), ('true_div', [('a', I, _ints), ('b', I, lambda r: r.choice([1, 2, 4, -8]))], R),
    ('trunc_float', [('x', R, _flt)], I), ('trunc_scaled', [('x', R, _flt), ('y', R, _pflt)], I),
    ('chain_compare', [('a', I, _ints), ('b', I, _ints), ('c', I, _ints)], I), ('bool_ops', [('a', I, _ints), ('b', I, _ints)], I),
    ('not_and_ternary', [('a', I, _ints), ('b', B, _bool)], I), ('min_max_abs', [('a', I, _ints), ('b', I, _ints)], I),
    ('loop_sum', [('n', I, _small)], I), ('loop_break', [('xs', MLI, _ilist), ('t', I, _ints)], I), ('range_two_args', [('a', I, _ints)], I),
    ('list_ops', [('xs', MLI, _ilist), ('y', I, _ints)], LI), ('list_index_neg', [('xs', MLI, _ilist1)], I), ('list_index_neg', [('xs', LI, _ilist1)], I),
    ('list_slice', [('xs', LI, _ilist1)], LI), ('list_slice', [('xs', MLI, _ilist1)], LI), ('list_concat', [('xs', MLI, _ilist), ('ys', MLI, _ilist)], LI),
    ('list_membership', [('xs', LI, _ilist), ('a', I, _ints)], I), ('list_membership', [('xs', MLI, _ilist), ('a', I, _ints)], I),
    ('list_comp', [('xs', MLI, _ilist)], LI), ('tuple_swap', [('a', I, _ints), ('b', I, _ints)], I), ('aug_assign', [('a', I, _ints), ('b', I, _ints)], I),
    ('str_concat_compare', [('s', S, _str), ('t', S, _str)], I), ('str_order', [('s', S, _str), ('t', S, _str)], B), ('str_len', [('s', S, _str)], I),
    ('none_default', [('a', I, _ints), ('b', T.Opt(I), _optint)], I), ('none_is_not', [('a', I, _ints), ('b', T.Opt(I), _optint)], I),
    ('try_except', [('a', I, _ints), ('b', I, _small)], I), ('try_subclass', [('a', I, _ints)], I), ('try_finally', [('a', I, _ints)], I),
    ('try_reraise', [('a', I, _ints)], I), ('raise_unhandled', [('a', I, _ints)], I), ('zero_division', [('a', I, _ints), ('b', I, _small)], I),
    ('zero_division_real', [('a', R, _flt), ('b', R, lambda r: r.choice([0.0, 0.5, 2.0]))], R), ('index_error', [('xs', LI, _ilist), ('i', I, _small)], I),
    ('index_error', [('xs', MLI, _ilist), ('i', I, _small)], I), ('inner_function', [('a', I, _ints), ('b', I, _ints)], I), ('lambda_call', [('a', I, _ints)], I),
    ('dict_concrete', [('a', I, _ints)], I), ('nested_loops', [('n', I, _small)], I), ('early_return_loop', [('xs', MLI, _ilist)], I),
    ('early_return_loop', [('xs', LI, _ilist)], I), ('float_arith', [('x', R, _flt), ('y', R, _flt)], R), ('float_compare', [('x', R, _flt), ('y', R, _flt)], R),
    ('mixed_int_float', [('a', I, _ints), ('x', R, _flt)], R), ('round_ndigits', [('x', R, _dec)], R), ('round_plain', [('x', R, _dec)], I),
    ('int_of_round', [('x', R, _cut), ('d', R, _step)], I), ('bool_result', [('a', I, _ints), ('b', I, _ints)], B), ('tuple_result', [('a', I, _ints), ('b', I, _ints)], T.Tuple(I, I)),
    ('reversed_tuple', [('a', I, _ints), ('b', I, _ints)], I), ('is_none_opt', [('a', T.Opt(I), _optint)], B), ('pass_stmt', [('a', I, _ints)], I),
    ('unpack_list', [('xs', MLI, lambda r: [_ints(r) for _ in range(r.choice([1, 2, 2, 2, 3]))])], I), ('unpack_list', [('xs', LI, lambda r: [_ints(r) for _ in range(r.choice([1, 2, 2, 2, 3]))])], I),
    ('sum_builtin', [('xs', MLI, _ilist)], I), ('negative_mod_float', [('a', I, _ints)], I), ('unary_ops', [('a', I, _ints), ('b', I, _ints)], I),
    ('compare_mixed', [('a', I, _ints), ('x', R, _flt)], B), ('string_in_list', [('s', S, _str), ('xs', LS, _slist)], B), ('list_equality', [('xs', MLI, _ilist), ('ys', MLI, _ilist)], B),
    ('max_of_list_len', [('xs', LI, _ilist), ('ys', MLI, _ilist)], I),
    ('str_index', [('s', S, lambda r: r.choice(['a', 'ab', 'Zn', 'O2-', '']))], S), ('sorted_small', [('xs', MLI, _ilist1)], I), ('tuple_membership', [('a', I, _ints), ('b', I, _ints)], I),
    ('nested_ternary', [('a', I, _ints), ('b', I, _ints)], I), ('both_negative_division', [('a', I, _ints), ('b', I, lambda r: r.choice([-5, -3, -2, -1, 2, 7]))], T.Tuple(I, I)),
    ('int_of_negative', [('x', R, _flt)], I), ('float_abs_min', [('x', R, _flt), ('y', R, _flt)], R), ('string_compare_chain', [('s', S, _str), ('t', S, _str), ('u', S, _str)], I),
    ('accumulate_in_try', [('xs', MLI, _ilist)], I), ('or_default', [('a', I, _ints), ('b', I, _ints)], I),
    ('split_once', [('s', S, lambda r: r.choice(['', ':', 'a:b', 'Pair:A-B=1', 'a:b:c', 'ab', ':x', 'x:', '::']))], I),
    ('split_once_unpack', [('s', S, lambda r: r.choice(['a=b', 'k=v=w', '=', 'abc', '', '=x'])), ('k', S, lambda r: r.choice(['a', 'k', '']))], I),
    ('index_then_slice', [('s', S, lambda r: r.choice(['a:b=c', 'T:t:x=0 1', 'S=a:k=v', 'a:b', 'ab=c', '', ':=', 'x:=:=']))], I),
    ('rsplit_once', [('s', S, lambda r: r.choice(['', ':', 'a:b', 'T:t:x', 'ab', ':x', 'x:', '::']))], I),
    ('get_default_in_or', [('d_has_raw', B, _bool), ('raw', I, lambda r: r.choice([0, 1, 5])), ('n', I, _ints)], I),
    ('subscript_optional', [('xs', T.Opt(LI), lambda r: r.choice([None, [], [4], [2, 9]]))], I),
]
SAFETY_KINDS = ('index', 'unpack', 'div', 'not-none', 'call-pre', 'zero')

def _load():
    spec = importlib.util.spec_from_file_location('pyvc_selftest_snippets', SNIP)
    m = importlib.util.module_from_spec(spec); spec.loader.exec_module(m)
    return m

def _decide(obls, budget_ms=4000):
    out = []
    for o in obls:
        r, dt, m, why = solve.run_z3(o, budget_ms)
        out.append(r)
    return out

def _expected_term(r, ty):
    return symexec.py_literal(r, ty)

def _run_engine(fi, params, rty, inputs, expect):
    """expect = ('ret', value) | ('exc', class name).  -> (verdict, detail)"""
    def mk(ens, rw):
        return Contract(SNIP, fi.qualname, params=[(n, t) for n, t, _ in params], result=rty, ensures=ens, raises_when=rw, on_raise=lambda v, old: [],
                        concrete_inputs=dict(inputs))
    def close(a, b):
        if rty.kind == 'Tuple': return z3.And(*[x == y for x, y in zip(a, [symexec.py_literal(p_, t_) for p_, t_ in zip(expect[1], rty.args)])])
        if rty.kind == 'Real':
            d = a - b
            tol = z3.RealVal('1/1000000000') * (1 + abs(float(expect[1])))
            return z3.And(d <= tol, -d <= tol)
        return a == b
    if expect[0] == 'ret':
        e = _expected_term(expect[1], rty)
        c1 = mk(lambda v, old, res: [close(res, e)], lambda v, old, exc: [z3.BoolVal(False)])
        c2 = mk(lambda v, old, res: [z3.Not(close(res, e))], lambda v, old, exc: [z3.BoolVal(True)])
    else:
        c1 = mk(lambda v, old, res: [z3.BoolVal(False)], lambda v, old, exc: [z3.BoolVal(exc.cls == expect[1])])
        c2 = mk(lambda v, old, res: [z3.BoolVal(True)], lambda v, old, exc: [z3.BoolVal(False)])
    ex1 = symexec.verify('SELFTEST', c1, track_raises=True, fi=fi)
    r1 = _decide(ex1.obls)
    bad = [(o.name, r) for o, r in zip(ex1.obls, r1) if r != 'proved']
    if expect[0] == 'exc' and any(any(('/' + k) in n for k in SAFETY_KINDS) for n, _ in bad):
        return 'agree', 'site flagged by a safety obligation: %s' % bad[0][0]
    if bad: return 'DISAGREE', 'CPython %s but the executor leaves %s' % (expect, bad[:2])
    ex2 = symexec.verify('SELFTEST', c2, track_raises=True, fi=fi)
    r2 = _decide(ex2.obls)
    if all(r == 'proved' for r in r2): return 'DISAGREE', 'vacuous: the executor proves both the observed result and its negation (no feasible path) for %s' % (expect,)
    return 'agree', ''

def run(n_per_case=3, seed=0, names=None, verbose=False):
    """-> dict(cases=..., runs=..., disagreements=[...], unsupported=[...], seconds=...)"""
    t0 = time.time()
    mod = _load(); m = Module.get(SNIP)
    rng = random.Random(seed)
    dis, unsup, runs = [], [], 0
    for name, params, rty in CASES:
        if names and name not in names: continue
        fi = m.funcs[name]; f = getattr(mod, name)
        for _ in range(n_per_case):
            vals = [(n, g(rng)) for n, t, g in params]
            args = [list(v) if isinstance(v, list) else v for _, v in vals]
            try: expect = ('ret', f(*args))
            except Exception as e: expect = ('exc', type(e).__name__)
            runs += 1
            try:
                verdict, detail = _run_engine(fi, params, rty, vals, expect)
            except Unsupported as e:
                unsup.append(dict(snippet=name, inputs=repr(vals), reason=str(e)[:200])); continue
            except Exception as e:
                verdict, detail = 'DISAGREE', 'executor crashed: %s: %s' % (type(e).__name__, str(e)[:300])
            if verbose: print(name, vals, expect, verdict, detail)
            if verdict != 'agree': dis.append(dict(snippet=name, inputs=repr(vals), cpython=repr(expect), detail=detail))
    return dict(cases=len(CASES), runs=runs, disagreements=dis, unsupported=unsup, seconds=round(time.time() - t0, 1))

if __name__ == '__main__':
    import json
    names = set(sys.argv[2:]) or None
    r = run(n_per_case=int(sys.argv[1]) if len(sys.argv) > 1 else 3, names=names, verbose=bool(names))
    print(json.dumps(r, indent=1))

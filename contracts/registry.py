"""Contracts for the label-clash tests of config/_potential_form_registry.py (C20): a [Table-Form] name or a [Potential-Form] label that is
already taken -- by an earlier entry of the same kind, by anything registered before, or by a standard form registered later -- is refused."""
import z3
from .common import *
from pyvc.spec import SpecSeq

F_REG = FILE = 'atsim/potentials/config/_potential_form_registry.py'
REG.add_class(ClassDecl('<ext>', 'FormObj', {}, external=True))                 # a Potential_Form (its behaviour is C06/C09/C18's business)
REG.add_class(ClassDecl('atsim/potentials/config/_common.py', 'TableFormTuple', {'name': T.Str}, external=True))
REG.add_class(ClassDecl('atsim/potentials/config/_common.py', 'SignatureTuple', {'label': T.Str}, external=True))
REG.add_class(ClassDecl('atsim/potentials/config/_common.py', 'PotentialFormTuple', {'signature': T.Obj('SignatureTuple')}, external=True))
REG.add_class(ClassDecl('atsim/potentials/config/_table_form_builder.py', 'Table_Form_Builder', {}, external=True))
REG.add_class(ClassDecl(F_REG, 'Potential_Form_Registry', {'_potential_forms': T.Dict(T.Str, T.Obj('FormObj')), '_late_standard_names': T.Set(T.Str)}))
FO = ObjSort('FormObj'); TFT = ObjSort('TableFormTuple'); PFT = ObjSort('PotentialFormTuple'); PR = ObjSort('Potential_Form_Registry')
tf_name = field('TableFormTuple', 'name', StrS)
pf_lab = lambda d: field('SignatureTuple', 'label', StrS)(field('PotentialFormTuple', 'signature', ObjSort('SignatureTuple'))(d))
reg_has = field('Potential_Form_Registry', '_potential_forms.has', z3.ArraySort(StrS, BoolS))
late_has = field('Potential_Form_Registry', '_late_standard_names', z3.ArraySort(StrS, BoolS))
table_form_of = z3.Function('table_form_of', TFT, FO); formula_form_of = z3.Function('formula_form_of', PFT, FO)
REG.add(Contract('<ext>', 'Table_Form_Builder.__init__', params=[('self', T.Obj('Table_Form_Builder'))], ensures=lambda v, old, res: [], external=True, note='collects the interpolation classes', props=['C20']))
REG.add(Contract('<ext>', 'Table_Form_Builder.create_potential_form', params=[('self', T.Obj('Table_Form_Builder')), ('table_tuple', T.Obj('TableFormTuple'))], result=T.Obj('FormObj'),
    ensures=lambda v, old, res: [res == table_form_of(v.table_tuple)], may_raise=lambda v: [('Table_Form_Exception', z3.Bool('bad_table_form'))], external=True,
    note='the potential form of one [Table-Form] section (C18), or a configuration error', props=['C20']))

def _clash_free(names, n, taken):
    """entry i is new: not among the names taken beforehand, not an earlier entry"""
    i, j = z3.Int('i!cf'), z3.Int('j!cf')
    return [z3.ForAll([i], z3.Implies(z3.And(0 <= i, i < n), z3.Not(taken(names(i))))),
            z3.ForAll([i, j], z3.Implies(z3.And(0 <= i, i < j, j < n), names(i) != names(j)))]
def _has_clash(names, n, taken):
    i, j = z3.Int('i!hc'), z3.Int('j!hc')
    return z3.Or(z3.Exists([i], z3.And(0 <= i, i < n, taken(names(i)))), z3.Exists([i, j], z3.And(0 <= i, i < j, j < n, names(i) == names(j))))
def _table(d, names, vals, n):
    x = z3.String('x!rt'); j = z3.Int('j!rt')
    return [z3.ForAll([j], z3.Implies(z3.And(0 <= j, j < n), z3.And(z3.Select(d.has, names(j)), z3.Select(d.get, names(j)) == vals(j)))),
            z3.ForAll([x], z3.Implies(z3.Select(d.has, x), z3.Exists([j], z3.And(0 <= j, j < n, names(j) == x))))]

def _tf(v):
    ds = v.definitions
    names = lambda i: tf_name(ds[i]); vals = lambda i: table_form_of(ds[i])
    taken = lambda x: z3.Or(z3.Select(reg_has(v.self), x), z3.Select(late_has(v.self), x))
    return ds, names, vals, taken
REG.add(Contract(F_REG, 'Potential_Form_Registry._build_table_forms', params=[('self', T.Obj('Potential_Form_Registry')), ('definitions', T.List(T.Obj('TableFormTuple')))],
    result=T.Dict(T.Str, T.Obj('FormObj')),
    ensures=lambda v, old, res: (lambda ds, names, vals, taken: _clash_free(names, z3.Length(ds), taken))(*_tf(v)),
    post_names=['no-name-taken-by-anything-registered-or-reserved', 'no-name-used-twice'],
    invariants={0: lambda v, old: (lambda ds, names, vals, taken: _clash_free(names, v._i0, taken) + _table(v.table_forms, names, vals, v._i0))(*_tf(v))},
    ghost={'table_forms': T.Dict(T.Str, T.Obj('FormObj'))}, instantiate_int_foralls=True,
    raises_when=lambda v, old, exc: [z3.BoolVal(exc.cls in ('Potential_Form_Registry_Exception', 'Table_Form_Exception'))] +
                                    ([(lambda ds, names, vals, taken: _has_clash(names, z3.Length(ds), taken))(*_tf(v))] if exc.cls == 'Potential_Form_Registry_Exception' else []),
    on_raise=lambda v, old: [], carries=['post', 'preserve/0', 'raises'], props=['C20']))

REG.add_class(ClassDecl('<ext>', 'CexprtkFunction', {}, external=True))
REG.add(Contract('<ext>', 'CexprtkFunction.__init__', params=[('self', T.Obj('CexprtkFunction')), ('potential_form_tuple', T.Obj('PotentialFormTuple'))],
    ensures=lambda v, old, res: [cx_of(v.self) == v.potential_form_tuple], external=True, note='_Cexptrk_Potential_Function(d): the lazily compiled formula of the entry d (C09)', props=['C20']))
cx_of = z3.Function('formula_entry_of', ObjSort('CexprtkFunction'), PFT)
REG.classes['CexprtkFunction'].pyname = '_Cexptrk_Potential_Function'
REG.add(Contract('<ext>', 'FormObj.__init__', params=[('self', T.Obj('FormObj')), ('potential_function', T.Obj('CexprtkFunction'))],
    ensures=lambda v, old, res: [v.self == formula_form_of(cx_of(v.potential_function))], external=True, note='Potential_Form(func): the form wrapping that function', props=['C20']))
REG.classes['FormObj'].pyname = 'Potential_Form'
def _pf(v):
    ds = v.definitions
    names = lambda i: pf_lab(ds[i]); vals = lambda i: formula_form_of(ds[i])
    taken = lambda x: z3.Select(reg_has(v.self), x)
    return ds, names, vals, taken
REG.add(Contract(F_REG, 'Potential_Form_Registry._build_potential_forms', params=[('self', T.Obj('Potential_Form_Registry')), ('definitions', T.List(T.Obj('PotentialFormTuple')))],
    result=T.Dict(T.Str, T.Obj('FormObj')),
    ensures=lambda v, old, res: (lambda ds, names, vals, taken: _clash_free(names, z3.Length(ds), taken))(*_pf(v)),
    post_names=['no-label-taken-by-a-table-form-or-standard-form', 'no-label-used-twice'],
    invariants={0: lambda v, old: (lambda ds, names, vals, taken: _clash_free(names, v._i0, taken) + _table(v.potential_forms, names, vals, v._i0))(*_pf(v))},
    ghost={'potential_forms': T.Dict(T.Str, T.Obj('FormObj'))}, instantiate_int_foralls=True,
    raises_when=lambda v, old, exc: [z3.BoolVal(exc.cls == 'Potential_Form_Registry_Exception'), (lambda ds, names, vals, taken: _has_clash(names, z3.Length(ds), taken))(*_pf(v))],
    on_raise=lambda v, old: [], carries=['post', 'preserve/0', 'raises'], props=['C20']))

"""Mechanical extraction of functions from the current working tree of the repository.

Every run re-reads the files with ast.parse.  What is dropped from a function before
verification is exactly: docstrings, `logger = logging...` assignments and the logging CALLS (their argument expressions are kept
and evaluated for exceptions).  Each dropped node is recorded.  Nothing else is dropped: a statement the
executor cannot translate raises Unsupported (checker error), it is never skipped.
"""
import ast, hashlib, os

REPO = os.environ.get('ATSIM_ROOT', '/repo')

class FuncInfo(object):
    def __init__(self, module, qualname, node, cls=None):
        self.module, self.qualname, self.node, self.cls = module, qualname, node, cls
        self.file = module.relpath
        seg = ast.get_source_segment(module.source, node) or ''
        self.sha256 = hashlib.sha256(seg.encode()).hexdigest()
        self.lines = (node.lineno, node.end_lineno)
        self.dropped = []
        self.is_property = any(isinstance(d, ast.Name) and d.id == 'property' for d in node.decorator_list)
        self.is_classmethod = any(isinstance(d, ast.Name) and d.id == 'classmethod' for d in node.decorator_list)
        self.is_staticmethod = any(isinstance(d, ast.Name) and d.id == 'staticmethod' for d in node.decorator_list)
        self.is_generator = any(isinstance(n, (ast.Yield, ast.YieldFrom)) for n in ast.walk(node))
        self.body = self._clean(node.body, top=True)

    def _is_logging(self, s):
        # logger = logging.getLogger(...)...   |  logger.info(...)  |  logging.xxx(...)
        def root(e):
            while isinstance(e, (ast.Attribute, ast.Call)):
                e = e.value if isinstance(e, ast.Attribute) else e.func
            return e.id if isinstance(e, ast.Name) else None
        if isinstance(s, ast.Assign) and len(s.targets) == 1 and isinstance(s.targets[0], ast.Name) \
           and s.targets[0].id == 'logger' and root(s.value) == 'logging':
            return True
        if isinstance(s, ast.Expr) and isinstance(s.value, ast.Call) and root(s.value) in ('logger', 'logging'):
            return True
        return False

    def _clean(self, stmts, top=False):
        out = []
        for i, s in enumerate(stmts):
            if isinstance(s, ast.Expr) and isinstance(s.value, ast.Constant) and isinstance(s.value.value, str):
                self.dropped.append('docstring/string statement at line %d' % s.lineno); continue
            if isinstance(s, (ast.Import, ast.ImportFrom)):
                out.append(s)      # kept: local imports bind names through Module.resolve
                continue
            if self._is_logging(s):
                if isinstance(s, ast.Expr) and isinstance(s.value, ast.Call) and (s.value.args or s.value.keywords):
                    # the call itself is dropped, its argument expressions are kept: they are evaluated eagerly by Python and can raise
                    # (e.g. an attribute read inside "...".format(...)); the executor evaluates them for their exceptional exits only
                    keep = ast.copy_location(ast.Expr(value=ast.copy_location(ast.Call(func=ast.copy_location(ast.Name(id='__logging_arguments__', ctx=ast.Load()), s),
                                                                                          args=list(s.value.args) + [k.value for k in s.value.keywords], keywords=[]), s)), s)
                    self.dropped.append('logging call at line %d (its arguments are still evaluated)' % s.lineno)
                    out.append(keep); continue
                self.dropped.append('logging statement at line %d' % s.lineno); continue
            for fld in ('body', 'orelse', 'finalbody'):
                if hasattr(s, fld) and isinstance(getattr(s, fld), list) and not isinstance(s, (ast.FunctionDef, ast.ClassDef, ast.Lambda)):
                    setattr(s, fld, self._clean(getattr(s, fld)))
            if isinstance(s, ast.Try):
                for h in s.handlers: h.body = self._clean(h.body)
            out.append(s)
        # a logger-only use check: any remaining reference to `logger` is an error for the caller to see
        return out


class Module(object):
    _cache = {}
    def __init__(self, relpath):
        self.relpath = relpath
        self.path = os.path.join(REPO, relpath)
        self.source = open(self.path).read()
        self.tree = ast.parse(self.source)
        self.imports = {}       # local name -> (relpath of module or None, original name or None)
        self.funcs = {}         # qualname -> FuncInfo
        self.classes = {}       # name -> ast.ClassDef
        self.consts = {}        # module-level simple assignments name -> ast expr
        self._scan()

    @classmethod
    def get(cls, relpath):
        key = (REPO, relpath)
        if key not in cls._cache: cls._cache[key] = Module(relpath)
        return cls._cache[key]

    @classmethod
    def clear(cls): cls._cache.clear()

    def _resolve_rel(self, level, modname):
        base = os.path.dirname(self.relpath)
        for _ in range(level - 1): base = os.path.dirname(base)
        if level == 0:
            cand = modname.replace('.', '/') if modname else ''
        else:
            cand = os.path.join(base, modname.replace('.', '/')) if modname else base
        for p in (cand + '.py', os.path.join(cand, '__init__.py')):
            if os.path.exists(os.path.join(REPO, p)): return p
        return None

    def _scan(self):
        for s in self.tree.body:
            self._scan_stmt(s)

    def _scan_stmt(self, s):
        if isinstance(s, ast.ImportFrom):
            rel = self._resolve_rel(s.level, s.module)
            for a in s.names:
                local = a.asname or a.name
                if rel is not None:
                    # `from . import x` style: the name may be a submodule
                    sub = self._resolve_rel(s.level, ((s.module + '.') if s.module else '') + a.name)
                    if sub is not None and (rel == self.relpath or not self._defines(rel, a.name)):     # (a package importing its own submodule)
                        self.imports[local] = (sub, None)
                    else:
                        self.imports[local] = (rel, a.name)
                else:
                    self.imports[local] = ('<ext>:' + (s.module or ''), a.name)
        elif isinstance(s, ast.Import):
            for a in s.names:
                # `import a.b` binds the name `a` (the top-level package); `import a.b as c` binds c to a.b
                self.imports[a.asname or a.name.split('.')[0]] = ('<ext>:' + (a.name if a.asname else a.name.split('.')[0]), None)
        elif isinstance(s, ast.FunctionDef):
            self.funcs[s.name] = FuncInfo(self, s.name, s)
        elif isinstance(s, ast.ClassDef):
            self.classes[s.name] = s
            for m in s.body:
                if isinstance(m, ast.FunctionDef):
                    q = '%s.%s' % (s.name, m.name)
                    # property setters share the name: keep getter under q, setter under q+'.setter'
                    if any(isinstance(d, ast.Attribute) and d.attr == 'setter' for d in m.decorator_list):
                        q += '.setter'
                    self.funcs[q] = FuncInfo(self, q, m, cls=s.name)
        elif isinstance(s, ast.Assign) and len(s.targets) == 1 and isinstance(s.targets[0], ast.Name):
            self.consts[s.targets[0].id] = s.value
        elif isinstance(s, ast.Try):
            for b in s.body + [x for h in s.handlers for x in h.body]: self._scan_stmt(b)

    def _defines(self, relpath, name):
        try:
            m = Module.get(relpath)
        except Exception:
            return True
        return name in m.funcs or name in m.classes or name in m.consts or name in m.imports

    def class_bases(self, clsname):
        """[(module, classname)] of direct bases that live in the repository"""
        out = []
        for b in self.classes[clsname].bases:
            if isinstance(b, ast.Name):
                r = self.resolve(b.id)
                if r and r[0] == 'class': out.append((r[1], r[2]))
        return out

    def resolve(self, name):
        """('func', module, qualname) | ('class', module, name) | ('const', module, expr) | ('module', Module) | ('ext', modname, name) | None"""
        if name in self.funcs and '.' not in name: return ('func', self, name)
        if name in self.classes: return ('class', self, name)
        if name in self.consts: return ('const', self, self.consts[name])
        if name in self.imports:
            rel, orig = self.imports[name]
            if rel.startswith('<ext>:'): return ('ext', rel[6:], orig)
            m = Module.get(rel)
            if orig is None: return ('module', m)
            return m.resolve(orig)
        return None

    def mro(self, clsname):
        """linearised (module, classname) list, single inheritance chain + object"""
        out, cur = [], (self, clsname)
        while cur:
            out.append(cur)
            bases = cur[0].class_bases(cur[1])
            cur = bases[0] if bases else None
        return out

    def find_method(self, clsname, meth, after=None):
        """resolve a method along the MRO; `after` = (module, cls) to start after (for super())"""
        chain = self.mro(clsname)
        if after is not None:
            idx = [i for i, (m, c) in enumerate(chain) if c == after[1] and m.relpath == after[0].relpath]
            chain = chain[idx[0] + 1:] if idx else []
        for m, c in chain:
            q = '%s.%s' % (c, meth)
            if q in m.funcs: return m.funcs[q]
        return None

    def class_attr(self, clsname, name):
        for m, c in self.mro(clsname):
            for s in m.classes[c].body:
                if isinstance(s, ast.Assign) and len(s.targets) == 1 and isinstance(s.targets[0], ast.Name) and s.targets[0].id == name:
                    return s.value
        return None


def get_func(relpath, qualname):
    m = Module.get(relpath)
    qualname = qualname.split('@')[0]      # 'f@view': a second contract (view) of the same function f, verified on the same body
    if qualname in m.funcs: return m.funcs[qualname]
    # nested function: "outer.<locals>.inner"
    if '.<locals>.' in qualname:
        outer, inner = qualname.split('.<locals>.', 1)
        fi = m.funcs[outer]
        for n in ast.walk(fi.node):
            if isinstance(n, ast.FunctionDef) and n.name == inner and n is not fi.node:
                return FuncInfo(m, qualname, n, cls=fi.cls)
    raise KeyError('%s::%s not found in the current tree' % (relpath, qualname))


def mutant(fi, old, new, count=1):
    """in-memory mutant of an extracted function: textual substitution on ast.unparse of the real
    function (the repository is not touched).  Raises if the pattern does not occur exactly `count` times."""
    src = ast.unparse(fi.node)
    if src.count(old) != count:
        raise KeyError('mutant pattern %r occurs %d times in %s (expected %d)' % (old, src.count(old), fi.qualname, count))
    node = ast.parse(src.replace(old, new)).body[0]
    for n in ast.walk(node):
        if hasattr(n, 'lineno'): n.lineno = fi.node.lineno; n.end_lineno = fi.node.end_lineno
    m = FuncInfo.__new__(FuncInfo)
    m.__dict__.update(fi.__dict__)
    m.node = node
    m.dropped = []
    m.body = m._clean(node.body, top=True)
    return m


class patched_source(object):
    """in-memory mutant of a whole module: Module.get(relpath) returns a Module parsed from the modified text while the
    context is active (the repository is not touched).  The pattern must occur exactly once."""
    def __init__(self, relpath, old, new): self.relpath, self.old, self.new = relpath, old, new
    def __enter__(self):
        path = os.path.join(REPO, self.relpath)
        src = open(path).read()
        if src.count(self.old) != 1: raise KeyError('mutant pattern %r occurs %d times in %s' % (self.old, src.count(self.old), self.relpath))
        m = Module.__new__(Module)
        m.relpath, m.path, m.source = self.relpath, path, src.replace(self.old, self.new)
        m.tree = ast.parse(m.source); m.imports, m.funcs, m.classes, m.consts = {}, {}, {}, {}
        m._scan()
        self.saved = Module._cache.get((REPO, self.relpath))
        Module._cache[(REPO, self.relpath)] = m
        return m
    def __exit__(self, *a):
        if self.saved is None: Module._cache.pop((REPO, self.relpath), None)
        else: Module._cache[(REPO, self.relpath)] = self.saved


def eager_generator(fi):
    """the eager view of a generator function under contract: `yield e` becomes `yielded.append(e)` on a list created on entry and returned on exit.
    What is verified is the sequence of values the generator yields when it is consumed to the end; laziness (evaluation interleaved with the
    consumer, an exception surfacing at the consuming loop instead of at the call) is not modelled -- recorded as an assumption by the caller."""
    src = ast.unparse(fi.node)
    node = ast.parse(src).body[0]
    class Y(ast.NodeTransformer):
        def visit_Expr(self_, n):
            if isinstance(n.value, ast.Yield):
                return ast.copy_location(ast.Expr(ast.Call(ast.Attribute(ast.Name('yielded', ast.Load()), 'append', ast.Load()), [n.value.value], [])), n)
            return n
        def visit_FunctionDef(self_, n):
            if n is not node: return n          # nested functions keep their own yields
            self_.generic_visit(n); return n
    Y().visit(node)
    if any(isinstance(n, (ast.Yield, ast.YieldFrom)) for n in ast.walk(node)): raise ValueError('generator shape of %s: a yield that is not a statement' % fi.qualname)
    doc = [node.body[0]] if node.body and isinstance(node.body[0], ast.Expr) and isinstance(node.body[0].value, ast.Constant) and isinstance(node.body[0].value.value, str) else []
    node.body = doc + [ast.Assign([ast.Name('yielded', ast.Store())], ast.List([], ast.Load()))] + node.body[len(doc):] + [ast.Return(ast.Name('yielded', ast.Load()))]
    ast.fix_missing_locations(node)
    for n in ast.walk(node):
        if hasattr(n, 'lineno'): n.lineno = fi.node.lineno; n.end_lineno = fi.node.end_lineno
    m = FuncInfo.__new__(FuncInfo)
    m.__dict__.update(fi.__dict__)
    m.node = node
    m.is_generator = False
    m.body = m._clean(node.body, top=True)
    return m

#!/bin/bash
export VERIF_EVIDENCE_DIR=/verif/.scratch/seed-evidence   # never overwrite evidence/ with a run on a modified tree
# round 7 (variants m, n)  usage: confirm_seed7.sh Cxx   — confirms /tmp/wt/out/Cxx/patch_{a,b}.diff in the scratch worktree /tmp/wt/Cxx and
# copies confirmed ones to /verif/seeded/Cxx_{a,b}/
p=$1; wt=/tmp/wt/r7_$p; out=/tmp/wt/out7/$p
for x in a b; do
  [ -f $out/patch_$x.diff ] || continue
  git -C $wt checkout -q -- . ; git -C $wt clean -fdq
  pre=$(ATSIM_ROOT=$wt /tmp/wt/tools/scratch_py -W ignore $out/demo_$x.py >/dev/null 2>&1; echo $?)
  git -C $wt apply $out/patch_$x.diff || { echo "$p $x: patch does not apply"; continue; }
  suite=$(cd $wt && ATSIM_ROOT=$wt /tmp/wt/tools/scratch_py -m pytest -q -p no:cacheprovider 2>&1 | tail -1)
  post=$(ATSIM_ROOT=$wt /tmp/wt/tools/scratch_py -W ignore $out/demo_$x.py >/dev/null 2>&1; echo $?)
  files=$(git -C $wt diff --name-only | tr '\n' ' ')
  git -C $wt checkout -q -- . ; git -C $wt clean -fdq
  ok=no
  if [ "$pre" = 0 ] && [ "$post" = 1 ] && echo "$suite" | grep -q "1 failed, 166 passed"; then ok=yes; fi
  echo "$p $x: demo_without=$pre demo_with=$post suite='$suite' files=$files confirmed=$ok"
  if [ $ok = yes ]; then
    y=$( [ $x = a ] && echo m || echo n ); d=/verif/seeded/${p}_$y; mkdir -p $d
    cp $out/patch_$x.diff $d/patch.diff; cp $out/demo_$x.py $d/demo.py
    python3 - $p $x "$suite" "$files" $y <<'PY'
import json, sys
p, x, suite, files, y = sys.argv[1:6]
notes = json.load(open('/tmp/wt/out7/%s/notes.json' % p)).get(x, {})
meta = dict(property=p, variant=y, summary=notes.get('summary'), needs_to_manifest=notes.get('needs_to_manifest'),
            files=files.split(), origin='independent sub-agent given only the property text and a scratch worktree',
            confirmed=dict(ran='tools/confirm_seed7.sh %s' % p, demo_without_change='exit 0', demo_with_change='exit 1', suite_with_change=suite))
json.dump(meta, open('/verif/seeded/%s_%s/meta.json' % (p, y), 'w'), indent=1)
PY
  fi
done

"""C04 oracle: Finnis-Sinclair densities land in the slot the consumer reads for 'density at an A site due to a B neighbour'."""
from _tabeam import *
import C03 as S3
from atsim.potentials.eam_tabulation import SetFL_FS_EAMTabulation, TABEAM_FinnisSinclair_EAMTabulation, Excel_FinnisSinclair_EAMTabulation

def model_d(model, fns, A, B, r, declared):
    """d(A,B)(r): declared function for central A, neighbour B; zero when undeclared"""
    if (A, B) not in declared: return 0.0
    return fns[A][1][B](r)

def slots_setfl_fs(text, labels):
    f = S3.parse_setfl(text, fs=True)
    # LAMMPS eam/fs: in the block of element X (index x), array number k is the density contributed by an X neighbour at a site of element k
    out = {}
    for x, X in enumerate(f['labels']):
        for k, Kl in enumerate(f['labels']):
            out[(Kl, X)] = f['elements'][x]['dens'][k]
    return f['labels'], f['nr'], f['dr'], out

def slots_tabeam_fs(text, labels):
    title, count, blocks = parse_tabeam(text)
    out = {}
    nr = dr = None
    for b in blocks:
        if b['kind'] == 'dens':
            # DL_POLY EEAM: 'dens A B' is the density at an A site due to a B neighbour (repository documentation; A7)
            out[tuple(b['species'])] = b['vals']; nr = b['n']; dr = b['end'] / (b['n'] - 1) if b['n'] > 1 else 0.0
    return labels, nr, dr, out

def slots_excel_fs(wb, labels):
    ws = wb['EAM-Density']
    rows = list(ws.iter_rows(values_only=True))
    head = rows[0]; out = {}
    rs = [r[0] for r in rows[1:]]
    for j, h in enumerate(head[1:], start=1):
        A, B = h.split('->')
        out[(A, B)] = [r[j] for r in rows[1:]]
    return labels, len(rs), (rs[1] - rs[0]) if len(rs) > 1 else 0.0, out

def write_ini(model, target, declared, order):
    def form(spec):
        t = '>=0 as.polynomial ' + ' '.join(repr(c) for c in spec['coefs'])
        if spec.get('cut') is not None: t += ' >%r as.zero' % spec['cut']
        return t
    L = ['[Tabulation]', 'target : %s' % target, 'nr : %d' % model['nr'], 'cutoff : %r' % model['cutoff'], 'nrho : %d' % model['nrho'], 'cutoff_rho : %r' % model['cutoff_rho'], '', '[EAM-Embed]']
    for e in model['elements']: L.append('%s : %s' % (e['species'], form(e['embed'])))
    L += ['', '[EAM-Density]']
    byname = {e['species']: e for e in model['elements']}
    for (A, B) in order:
        if (A, B) in declared: L.append('%s->%s : %s' % (A, B, form(byname[A]['dens'][B])))
    L += ['', '[Pair]']
    for p in model['pairs']: L.append('%s-%s : %s' % (p['A'], p['B'], form(p['fn'])))
    return '\n'.join(L) + '\n'

def run(case):
    model, route = case['model'], case['route']
    labels = [e['species'] for e in model['elements']]
    declared = set(tuple(x) for x in case['declared'])
    eams, pots, fns, pf = build_eam(model, fs=True)
    nr, nrho = model['nr'], model['nrho']; dr, drho = model['cutoff'] / (nr - 1), model['cutoff_rho'] / (nrho - 1)
    args = (pots, eams, model['cutoff'], nr, model['cutoff_rho'], nrho)
    if route.startswith('potable:'):
        from atsim.potentials.config import Configuration
        target = route.split(':')[1]
        tab = Configuration().read(io.StringIO(write_ini(model, target, declared, [tuple(x) for x in case['order']])))
        if 'excel' in target: return slots_excel_fs(tab.workbook, labels), fns
        out = io.StringIO(); tab.write(out)
        return (slots_setfl_fs if target == 'setfl_fs' else slots_tabeam_fs)(out.getvalue(), labels), fns
    # API routes need complete dictionaries: undeclared combinations are an explicit zero function there
    for e in eams:
        for m in labels:
            if (e.species, m) not in declared:
                if route == 'excel_fs_sparse': e.electronDensityFunction.pop(m, None)       # Python API with sparse dictionaries: the combination is simply not declared
                else: e.electronDensityFunction[m] = Poly([0.0])
    if route == 'setfl_fs':
        out = io.StringIO(); ap.writeSetFLFinnisSinclair(nrho, drho, nr, dr, eams, pots, out); return slots_setfl_fs(out.getvalue(), labels), fns
    if route == 'setfl_fs_class':
        out = io.StringIO(); SetFL_FS_EAMTabulation(*args).write(out); return slots_setfl_fs(out.getvalue(), labels), fns
    if route == 'tabeam_fs':
        out = io.StringIO(); ap.writeTABEAMFinnisSinclair(nrho, drho, nr, dr, eams, pots, out); return slots_tabeam_fs(out.getvalue(), labels), fns
    if route == 'tabeam_fs_class':
        out = io.StringIO(); TABEAM_FinnisSinclair_EAMTabulation(*args).write(out); return slots_tabeam_fs(out.getvalue(), labels), fns
    if route in ('excel_fs', 'excel_fs_sparse'):
        tab = Excel_FinnisSinclair_EAMTabulation(*args)
        if case.get('after_failure'):
            # history: a density evaluation fails once while the sheets are being filled; the caller retries on the same object
            class Once(object):
                def __init__(self, f, k): self.f, self.k, self.n = f, k, 0
                def __call__(self, r):
                    self.n += 1
                    if self.n == self.k: raise RuntimeError('transient failure')
                    return self.f(r)
            e0 = eams[0]; k0 = sorted(e0.electronDensityFunction)[0]; e0.electronDensityFunction[k0] = Once(e0.electronDensityFunction[k0], max(2, nr // 2))
            try: tab.workbook
            except RuntimeError: pass
        return slots_excel_fs(tab.workbook, labels), fns
    raise ValueError(route)

def check_case(rep, case, name):
    model = case['model']; labels = [e['species'] for e in model['elements']]
    declared = set(tuple(x) for x in case['declared'])
    try: (flabels, nr, dr, slots), fns = run(case)
    except Exception as e: rep.dev(name, case, 'exception %r' % (e,), 'a table'); return
    dr0 = model['cutoff'] / (model['nr'] - 1)
    tol = 1e-6 if 'tabeam' in case['route'] or 'DL_POLY' in case['route'] else 1e-12
    for A in labels:
        for B in labels:
            if (A, B) not in slots and case['route'] == 'excel_fs_sparse' and (A, B) not in declared: continue      # no column for an undeclared combination: nothing stored, reads as zero
            if (A, B) not in slots: rep.dev(name, case, 'no slot for density at %s site due to %s neighbour' % (A, B), 'present'); return
            vals = slots[(A, B)]
            if len(vals) != model['nr']: rep.dev(name, case, 'slot %s<-%s has %d values' % (A, B, len(vals)), model['nr']); return
            for i, v in enumerate(vals):
                want = model_d(model, fns, A, B, i * dr0, declared)
                if not close(v, want, tol, tol): rep.dev(name, case, 'density at %s site due to %s neighbour, r=%r: %r' % (A, B, i * dr0, v), want); return
            rep.ok(len(vals))

def gen_case(rng):
    m = mk_eam_model(rng, fs=True)
    labels = [e['species'] for e in m['elements']]
    allp = [(a, b) for a in labels for b in labels]
    route = rng.choice(['setfl_fs', 'setfl_fs_class', 'tabeam_fs', 'tabeam_fs_class', 'excel_fs', 'excel_fs_sparse', 'potable:setfl_fs', 'potable:DL_POLY_EAM_fs', 'potable:excel_eam_fs'])
    declared = [p for p in allp if rng.random() < 0.8] or allp[:1]
    order = list(allp); rng.shuffle(order)
    if route.startswith('potable'):
        for e in m['elements']:
            e['embed'] = dict(kind='poly', coefs=[round(rng.uniform(-3, 3), 3), round(rng.uniform(-3, 3), 3)])
            e['dens'] = {k: dict(kind='poly', coefs=[round(rng.uniform(0.1, 9), 3), round(rng.uniform(-1, 1), 3)]) for k in labels}
        if rng.random() < 0.6:
            # several entries share the same leading form and parameters and differ only in where they are cut off
            pool = [[round(rng.uniform(0.1, 9), 3), round(rng.uniform(-1, 1), 3)] for _ in range(2)]
            for e in m['elements']:
                for k in labels:
                    e['dens'][k] = dict(kind='poly', coefs=list(rng.choice(pool)), cut=rng.choice([None, round(rng.uniform(0.2, m['cutoff']), 2), round(rng.uniform(0.2, m['cutoff']), 2)]))
        for p in m['pairs']: p['fn'] = dict(kind='poly', coefs=[round(rng.uniform(-3, 3), 3)])
        rng.shuffle(m['elements'])
    return dict(route=route, model=m, declared=declared, order=order)

if __name__ == '__main__':
    pl = payload(); rep = Report('C04')
    if pl.get('mode') == 'replay': rep.case('replay', pl['input']); check_case(rep, pl['input'], 'replay')
    else:
        rng = random.Random(pl.get('seed', 0))
        # every route at least twice per run, whatever the random choice below (a detection must not rest on chance)
        for j, route in enumerate(2 * ['excel_fs_sparse', 'excel_fs', 'setfl_fs_class', 'tabeam_fs_class']):
            c = gen_case(rng)
            if c['route'].startswith('potable'): c = gen_case(random.Random(1000 + j)); 
            if c['route'].startswith('potable'): continue
            c['route'] = route
            if route == 'excel_fs_sparse' and len(c['declared']) == len(c['model']['elements']) ** 2 and len(c['declared']) > 1: c['declared'] = c['declared'][:-1]
            if route == 'excel_fs' and j >= 4: c['after_failure'] = True
            rep.case(route + ('/after-failure' if c.get('after_failure') else ''), c); check_case(rep, c, 'route-%s-%d' % (route, j))
        for i in range(pl.get('n', 40)):
            c = gen_case(rng); rep.case(c['route'], c); check_case(rep, c, 'seeded-%d' % i)
    rep.finish()

"""C14 — --override-item / --add-item / --remove-item equal editing the file by hand."""
import ast, z3
from pyvc.core import *
from pyvc.solve import Obligation
from pyvc import symalg as B

F_CP = 'atsim/potentials/config/_config_parser.py'
F_POT = 'atsim/potentials/tools/potable/__init__.py'
F_Q = 'atsim/potentials/tools/potable/_query_actions.py'
FUNCTIONS = []

def lemmas():
    out = []
    S = B.source_shape
    # the edit fold over the INI view (A5): overrides/removals first (each requires presence), then additions (each requires absence)
    out.append(S('C14', F_CP, 'ConfigParser._init_config_parser', 'override-requires-presence',
                 ['for override in overrides:', 'if not cp.has_option(override.section, override.key):\n raise ConfigOverrideException']))
    out.append(S('C14', F_CP, 'ConfigParser._init_config_parser', 'remove-deletes-and-drops-an-emptied-section',
                 ['if override.value is None:', 'cp.remove_option(override.section, override.key)', 'if len(cp[override.section]) == 0:\n cp.remove_section(override.section)']))
    out.append(S('C14', F_CP, 'ConfigParser._init_config_parser', 'override-replaces-in-place', ['else:\n cp[override.section][override.key] = override.value']))
    out.append(S('C14', F_CP, 'ConfigParser._init_config_parser', 'add-requires-absence-and-creates-the-section-last',
                 ['for override in additional:', 'if cp.has_option(override.section, override.key):\n raise ConfigOverrideDuplicateException',
                  'if not cp.has_section(override.section):\n cp.add_section(override.section)', 'cp[override.section][override.key] = override.value', 'return cp']))
    # keys match irrespective of embedded whitespace: membership (has_option), storage and strict-duplicate test use one normal form
    out.append(S('C14', F_CP, '_RawConfigParser.optionxform', 'one-normal-form', ["option = option.strip().replace(' ', '').replace('\\t', '')"]))
    out.append(S('C14', F_CP, '_RawConfigParser.has_option', 'membership-on-the-normal-form-of-own-keys',
                 ['option = self.optionxform(option)', 'return option in self._sections[section]'], forbidden=['in self._defaults\n return option in self._sections']))
    out.append(S('C14', F_CP, '_ConfigParserDict._key_transform', 'storage-normal-form', ["k = k.strip().replace(' ', '')", "k = k.replace('\\t', '')", 'return k']))
    for m in ('__setitem__', '__getitem__', '__delitem__'):
        out.append(S('C14', F_CP, '_ConfigParserDict.' + m, 'uses-the-normal-form', ['key = self._key_transform(key)']))
    out.append(S('C14', F_CP, '_RawConfigParser.options', 'length-of-a-section-counts-own-keys-only', ['return list(self._sections[section].keys())\n except KeyError:']))
    # CLI: later override of the same key wins, removals after overrides, additions kept in order
    out.append(S('C14', F_POT, '_make_config_parser', 'cli-merge',
                 ['override_dict = collections.OrderedDict()', 'k = (over_tuple.section, over_tuple.key)', 'override_dict[k] = over_tuple', 'over_tuple = _create_override_tuple(override, False)',
                  'overrides_list = list(override_dict.values())', 'additional_list.append(over_tuple)', 'cp = ConfigParser(cfg_file, overrides=overrides_list, additional=additional_list)']))
    out.append(S('C14', F_POT, '_create_override_tuple', 'SECTION:KEY=VALUE', ["section, key = key.split(':', 1)", "key, value = key.split('=', 1)", 'value = None',
                                                                                'retval = ConfigParserOverrideTuple(section=section, key=key, value=value)']))
    # --list-items: parsed sections, orphan sections and [Variables], each once
    out.append(S('C14', F_Q, '_list_items', 'every-section-once',
                 ["if 'pair' in parsed_sections:", "if 'potential_form' in parsed_sections:", "if 'tabulation' in parsed_sections:", "if 'eam_embed' in parsed_sections:",
                  "if 'eam_density' in parsed_sections or 'eam_density_fs' in parsed_sections:", 'raw_items = _parse_raw(cp, orphan_sections)', 'for k, v in raw_cp.defaults().items():']))
    out.append(S('C14', F_Q, '_list_section', 'every-key-of-the-section-with-its-value', ['for k in raw_cp[section]:', 'v = raw_cp[section][k]', 'outlist.append(ov)']))
    from pyvc.exceptions import bases_of
    for cls in ('ConfigOverrideException', 'ConfigOverrideDuplicateException'):
        out.append(B.static_obligation('C14/_config_parser.py::%s/is-a-ConfigurationException' % cls, 'ConfigurationException' in bases_of(cls), cls, F_CP, str(bases_of(cls))))
    # fold lemma (specification level): override then lookup gives the new value and leaves other keys alone; remove then lookup = absent
    K = z3.DeclareSort('Key'); Vv = z3.StringSort()
    has = z3.Const('has', z3.ArraySort(K, z3.BoolSort())); val = z3.Const('val', z3.ArraySort(K, Vv)); k1, k2 = z3.Consts('k1 k2', K); nv = z3.String('nv')
    out.append(Obligation('C14/lemma/override-changes-exactly-that-key', [k1 != k2, z3.Select(has, k1)],
                          z3.And(z3.Select(z3.Store(val, k1, nv), k1) == nv, z3.Select(z3.Store(val, k1, nv), k2) == z3.Select(val, k2)), kind='lemma', function='props/C14.py', carries_property=True))
    out.append(Obligation('C14/lemma/remove-deletes-exactly-that-key', [k1 != k2],
                          z3.And(z3.Not(z3.Select(z3.Store(has, k1, z3.BoolVal(False)), k1)), z3.Select(z3.Store(has, k1, z3.BoolVal(False)), k2) == z3.Select(has, k2)), kind='lemma', function='props/C14.py', carries_property=True))
    return out

MODULE_MUTANTS = [
    (F_CP, "    option = option.strip().replace(' ', '').replace('\\t', '')\n", "    option = option.strip()\n", 'one-normal-form'),
    (F_CP, "    for override in additional:\n      if cp.has_option(override.section, override.key):\n        raise ConfigOverrideDuplicateException(", "    for override in additional:\n      if False:\n        raise ConfigOverrideDuplicateException(", 'add-requires-absence'),
    (F_CP, "        if len(cp[override.section]) == 0:\n          cp.remove_section(override.section)\n", "", 'remove-deletes'),
    (F_Q, "  for k,v in raw_cp.defaults().items():\n    items.append((\"{section}:{key}\".format(section = raw_cp.default_section, key = k), v))\n", "", 'every-section-once'),
]
ENGINE_B_FUNCTIONS = [(F_CP, 'ConfigParser._init_config_parser'), (F_CP, '_RawConfigParser.optionxform'), (F_CP, '_RawConfigParser.has_option'), (F_CP, '_ConfigParserDict._key_transform'),
                      (F_POT, '_make_config_parser'), (F_POT, '_create_override_tuple'), (F_Q, '_list_items'), (F_Q, '_list_section')]
ASSUMPTIONS = ['A5: configparser section proxies store through dict_type.__setitem__, remove_option/remove_section/add_section as documented',
               'the edit fold is decided on the normalised source of _init_config_parser (structural) and on the real code by the oracle (bounded); a general loop-invariant proof over the configparser ADT is not attempted in this version']
BOUNDED = [dict(name='tabulation with overrides/additions/removals == tabulation of the hand-edited file (CLI and API), --list-items lists every item once', bound='seeded pair models, 1..3 operations with whitespace/tab variants of the keys, with and without [Variables]; quick 40 / thorough 2000', technique='concrete oracle')]

def oracle_payload(tier, seed, mode='search'): return dict(mode=mode, seed=seed, n=40 if tier == 'quick' else 2000)
def witness_for(ob, devs, run_oracle):
    if devs: d = devs[0]; return dict(deviates=True, input=d['input'], observed=d['observed'], expected=d['expected'])
    return dict(deviates=False)

# Redirect the editable install of atsim-potentials (mapped to /repo by a finder in /venv)
# to the tree named by ATSIM_ROOT. Used by replay harnesses run against scratch copies and
# by sub-agents working in scratch worktrees; with ATSIM_ROOT unset nothing changes.
import os, sys
_root = os.environ.get("ATSIM_ROOT")
if _root:
    try:
        import __editable___atsim_potentials_0_4_1_finder as _f
        _f.MAPPING['atsim'] = os.path.join(_root, 'atsim')
        _f.MAPPING['tests.config'] = os.path.join(_root, 'tests', 'config')
    except Exception:
        pass
    for _k in [k for k in sys.modules if k == 'atsim' or k.startswith('atsim.')]:
        del sys.modules[_k]
    import types
    _m = types.ModuleType('atsim'); _m.__path__ = [os.path.join(_root, 'atsim')]
    sys.modules['atsim'] = _m

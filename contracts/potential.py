"""Contracts for _potential.py and _util.py (C01, C02, C07)."""
import z3
from .common import *

F_UTIL = 'atsim/potentials/_util.py'

REG.add_class(ClassDecl(F_UTIL, '_GradientWrapper', {'_wrapped': T.Fn, '_h': T.Real}))

def _r(): return z3.Real('r!q')

# Potential.__init__ establishes the class invariant: the stored derivative function is gradient(f, h)
REG.add(Contract(F_POT, 'Potential.__init__',
    params=[('self', T.New('Potential')), ('speciesA', T.Str), ('speciesB', T.Str), ('potentialFunction', T.Fn), ('h', T.Real)],
    requires=lambda v: [v.h > 0],
    ensures=lambda v, old, res: [
        v.field('self', '_speciesA') == v.speciesA,
        v.field('self', '_speciesB') == v.speciesB,
        v.field('self', '_potentialFunction') == v.potentialFunction,
        z3.ForAll([_r()], app(v.field('self', '_derivFunction'), _r()) == gradspec(v.potentialFunction, v.h, _r())),
    ],
    post_names=['speciesA', 'speciesB', 'fn', 'deriv-is-gradient'],
    carries=['post'], props=['C01', 'C02', 'C07']))

# gradient(gradient(f)) uses deriv2 when offered (C07 dispatch): the wrapper offers .deriv iff f offers .deriv2
REG.add(Contract(F_UTIL, 'gradient',
    params=[('func', T.Fn), ('h', T.Real)],
    requires=lambda v: [v.h > 0],
    result=T.Fn,
    ensures=lambda v, old, res: [
        z3.ForAll([_r()], app(res, _r()) == gradspec(v.func, v.h, _r())),
        has_deriv(res) == has_deriv2(v.func),
        z3.Implies(has_deriv2(v.func), z3.ForAll([_r()], app(dfn(res), _r()) == app(d2fn(v.func), _r()))),
    ],
    post_names=['value', 'offers-deriv-iff-deriv2', 'deriv-is-deriv2'],
    inline=True,      # callers execute the real body (3 lines); the contract is verified on its own as well
    carries=['post'], props=['C01', 'C07']))

REG.add(Contract(F_UTIL, 'num_deriv',
    params=[('r', T.Real), ('func', T.Fn), ('h', T.Real)],
    requires=lambda v: [v.h > 0], result=T.Real,
    ensures=lambda v, old, res: [res == (app(v.func, v.r + v.h / 2) - app(v.func, v.r - v.h / 2)) / ((v.r + v.h / 2) - (v.r - v.h / 2))],
    inline=True, carries=['post'], props=['C01', 'C07']))

REG.add(Contract(F_UTIL, 'deriv',
    params=[('r', T.Real), ('func', T.Fn), ('h', T.Real)],
    requires=lambda v: [v.h > 0], result=T.Real,
    ensures=lambda v, old, res: [res == gradspec(v.func, v.h, v.r)],
    inline=True, carries=['post'], props=['C01', 'C07']))

"""A5: assumed contracts of the standard-library configparser objects the repository uses (validated differentially against
the real module by oracles/A5.py in the thorough tier).  SectionProxy is modelled as a finite map key -> text with a name."""
import z3
from .common import *

REG.add_class(ClassDecl('<ext>', 'SectionProxy', {'name': T.Str}, external=True))
SP = ObjSort('SectionProxy')
sec_has = z3.Function('sec_has', SP, StrS, BoolS)      # key visible in the section (own keys and, for RawConfigParser, default-section keys)
sec_get = z3.Function('sec_get', SP, StrS, StrS)       # its (interpolated) text

REG.add(Contract('<ext>', 'SectionProxy.get',
    params=[('self', T.Obj('SectionProxy')), ('option', T.Str), ('fallback', T.NoneT)],
    defaults={'fallback': None}, result=T.Opt(T.Str),
    ensures=lambda v, old, res: [res.isnone == z3.Not(sec_has(v.self, v.option)), z3.Implies(z3.Not(res.isnone), res.val.z == sec_get(v.self, v.option))],
    external=True, note='configparser.SectionProxy.get(option, fallback=None): the value text, or the fallback when the option is absent',
    props=['C11', 'C16']))

REG.add(Contract('<ext>', 'SectionProxy.__getitem__',
    params=[('self', T.Obj('SectionProxy')), ('key', T.Str)], result=T.Str,
    ensures=lambda v, old, res: [res == sec_get(v.self, v.key)],
    may_raise=lambda v: [('KeyError', z3.Not(sec_has(v.self, v.key)))],
    external=True, note='configparser.SectionProxy[key]: the value text; KeyError when the option is absent', props=['C18', 'C16']))

REG.add(Contract('<ext>', 'SectionProxy.__contains__',
    params=[('self', T.Obj('SectionProxy')), ('key', T.Str)], result=T.Bool,
    ensures=lambda v, old, res: [res == sec_has(v.self, v.key)],
    external=True, note='`key in section`: option present (parser.has_option)', props=['C16', 'C15']))

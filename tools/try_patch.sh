#!/bin/sh
export VERIF_EVIDENCE_DIR=/verif/.scratch/seed-evidence   # never overwrite evidence/ with a run on a modified tree
# usage: try_patch.sh <patch> <prop>...   apply a seeded change to /repo, run the quick checks, revert
patch=$1; shift
git -C /repo apply "$patch" || exit 9
for p in "$@"; do
  (cd /verif && timeout 900 python3-vt bin/check $p 2>&1 | grep -E "^(VIOLATION|KNOWN|CHECKER|UNDECIDED|C[0-9]+:)" | cut -c1-300; )
done
git -C /repo checkout -- . && git -C /repo status --short | head -3

"""C19 oracle: GULP, ADP, funcfl and Excel targets read back and compared with the model."""
from _tabeam import *
import C03 as S3
from atsim.potentials.pair_tabulation import GULP_PairTabulation, Excel_PairTabulation
from atsim.potentials.eam_tabulation import ADP_EAMTabulation, Excel_EAMTabulation

def check_gulp(rep, case, name):
    pots, fs = [], []
    for p in case['pots']:
        f = mk_callable(p['fn']); fs.append(f); pots.append(Potential(p['A'], p['B'], f))
    out = io.StringIO(); cutoff, nr = case['cutoff'], case['nr']
    if case['route'] == 'gulp_class': GULP_PairTabulation(pots, cutoff, nr).write(out)
    else: ap.writePotentials('GULP', pots, cutoff, nr, out)
    lines = out.getvalue().split('\n'); i = 0
    for p, f in zip(case['pots'], fs):
        if lines[i] != 'spline cubic': rep.dev(name, case, 'line %r' % lines[i], 'spline cubic'); return
        h = lines[i + 1].split()
        if h[:2] != [p['A'], p['B']] or not close(float(h[2]), cutoff, 1e-12): rep.dev(name, case, 'header %r' % lines[i + 1], '%s %s %r' % (p['A'], p['B'], cutoff)); return
        i += 2
        for k in range(nr):
            t = lines[i].split(); i += 1
            r = k * cutoff / (nr - 1)
            if len(t) != 2 or not close(float(t[1]), r, 0, 1e-9) or not close(float(t[0]), f(r), 1e-9, 1e-9):
                rep.dev(name, case, 'row %d: %r' % (k, t), 'E(%r)=%r  r=%r' % (r, f(r), r)); return
        rep.ok(nr)
    if [l for l in lines[i:] if l.strip()]: rep.dev(name, case, 'surplus rows %r' % lines[i:i + 2], 'exactly nr rows per potential')

def check_adp(rep, case, name):
    model = case['model']
    eams, pots, fns, pf = build_eam(model)
    dips = [Potential(p['A'], p['B'], mk_callable(p['fn'])) for p in case['dipoles']]
    quads = [Potential(p['A'], p['B'], mk_callable(p['fn'])) for p in case['quadrupoles']]
    out = io.StringIO(); nr, nrho = model['nr'], model['nrho']
    ADP_EAMTabulation(pots, eams, dips, quads, model['cutoff'], nr, model['cutoff_rho'], nrho).write(out)
    f = S3.parse_setfl(out.getvalue())
    labels = [e['species'] for e in model['elements']]; n = len(labels); dr = model['cutoff'] / (nr - 1)
    ref = io.StringIO(); ap.writeSetFL(nrho, model['cutoff_rho'] / (nrho - 1), nr, dr, eams, pots, ref)
    if not out.getvalue().startswith(ref.getvalue()): rep.dev(name, case, 'ADP file does not start with the setfl file of the same model', 'setfl prefix'); return
    rest = f['rest']; need = 2 * (n * (n + 1) // 2) * nr
    if len(rest) != need: rep.dev(name, case, '%d numbers after the setfl part' % len(rest), need); return
    vals = [float(x) for x in rest]; pos = 0
    for kind, decl in (('dipole', case['dipoles']), ('quadrupole', case['quadrupoles'])):
        for i in range(n):
            for j in range(i + 1):
                fn = None
                for p in decl:
                    if {p['A'], p['B']} == {labels[i], labels[j]} and len({p['A'], p['B']}) == len({labels[i], labels[j]}): fn = mk_callable(p['fn'])
                for k in range(nr):
                    want = fn(k * dr) if fn is not None else 0.0
                    if not close(vals[pos], want, 1e-12, 1e-14): rep.dev(name, case, '%s %s-%s[%d]=%r' % (kind, labels[i], labels[j], k, vals[pos]), want); return
                    pos += 1
        rep.ok(pos)

def check_funcfl(rep, case, name):
    m = case['model']; e = m['elements'][0]
    emb, dens, pf = mk_callable(e['embed']), mk_callable(e['dens']), mk_callable(case['pair'])
    eam = EAMPotential(e['species'], e['Z'], e['mass'], emb, dens, e['a0'], e['lattice'])
    out = io.StringIO(); nr, nrho, dr, drho = m['nr'], m['nrho'], case['dr'], case['drho']
    ap.writeFuncFL(nrho, drho, nr, dr, [eam], [Potential(e['species'], e['species'], pf)], out, 'title')
    lines = out.getvalue().split('\n')
    g = lines[2].split()
    if (int(g[0]), int(g[2])) != (nrho, nr) or not close(float(g[1]), drho, 1e-6) or not close(float(g[3]), dr, 1e-6) or not close(float(g[4]), dr * (nr - 1), 1e-6):
        rep.dev(name, case, 'header grid %r' % g, (nrho, drho, nr, dr, dr * (nr - 1))); return
    nums = [float(x) for x in ' '.join(lines[3:]).split()]
    if len(nums) != nrho + 2 * nr: rep.dev(name, case, '%d values' % len(nums), nrho + 2 * nr); return
    for i in range(nrho):
        if not close(nums[i], emb(i * drho), 1e-12, 1e-14): rep.dev(name, case, 'F[%d]=%r' % (i, nums[i]), emb(i * drho)); return
    for k in range(1, nr):
        r = k * dr; z = nums[nrho + k]
        if not close(z * z * 27.2 * 0.529 / r, pf(r), 1e-9, 1e-12): rep.dev(name, case, 'Z[%d]^2*27.2*0.529/r=%r' % (k, z * z * 27.2 * 0.529 / r), pf(r)); return
    for k in range(nr):
        if not close(nums[nrho + nr + k], dens(k * dr), 1e-12, 1e-14): rep.dev(name, case, 'rho[%d]=%r' % (k, nums[nrho + nr + k]), dens(k * dr)); return
    rep.ok(nrho + 2 * nr)

def check_excel(rep, case, name):
    model = case['model']; eams, pots, fns, pf = build_eam(model)
    nr, nrho = model['nr'], model['nrho']
    if case.get('after_failure') and pots:
        # history: the first attempt to build the workbook fails half way (one evaluation raises, once); the caller retries on the SAME object --
        # the workbook it then gets must be the complete one of the model
        from atsim.potentials import Potential
        class Once(object):
            def __init__(self, f, k): self.f, self.k, self.n = f, k, 0
            def __call__(self, r):
                self.n += 1
                if self.n == self.k: raise RuntimeError('transient failure')
                return self.f(r)
        p0 = pots[0]; pots = [Potential(p0.speciesA, p0.speciesB, Once(p0.potentialFunction, max(2, nr // 2)))] + list(pots[1:])
    tab = Excel_PairTabulation(pots, model['cutoff'], nr) if case['route'] == 'excel_pair' else Excel_EAMTabulation(pots, eams, model['cutoff'], nr, model['cutoff_rho'], nrho)
    if case.get('after_failure') and pots:
        try: tab.workbook
        except RuntimeError: pass
    wb = tab.workbook
    def sheet(nm):
        rows = list(wb[nm].iter_rows(values_only=True)); return rows[0], rows[1:]
    head, rows = sheet('Pair')
    keys = sorted({'-'.join(sorted([p['A'], p['B']])) for p in model['pairs']})
    if list(head) != ['r'] + keys: rep.dev(name, case, 'Pair header %r' % (head,), ['r'] + keys); return
    if len(rows) != nr: rep.dev(name, case, 'Pair sheet has %d rows' % len(rows), nr); return
    for i, row in enumerate(rows):
        r = i * model['cutoff'] / (nr - 1)
        if not close(row[0], r, 1e-12): rep.dev(name, case, 'r[%d]=%r' % (i, row[0]), r); return
        for j, kx in enumerate(keys):
            a, b = kx.split('-'); fn = pair_lookup(model, pf, a, b)
            if not close(row[1 + j], fn(r), 1e-12, 1e-14): rep.dev(name, case, 'Pair %s[%d]=%r' % (kx, i, row[1 + j]), fn(r)); return
    rep.ok(nr)
    if case['route'] == 'excel_eam':
        labels = sorted(e['species'] for e in model['elements'])
        for nm, first, n_, step, idx in (('EAM-Density', 'r', nr, model['cutoff'] / (nr - 1), 1), ('EAM-Embed', 'rho', nrho, model['cutoff_rho'] / (nrho - 1), 0)):
            head, rows = sheet(nm)
            if list(head) != [first] + labels or len(rows) != n_: rep.dev(name, case, '%s header %r, %d rows' % (nm, head, len(rows)), ([first] + labels, n_)); return
            for i, row in enumerate(rows):
                x = i * step
                if not close(row[0], x, 1e-12): rep.dev(name, case, '%s x[%d]=%r' % (nm, i, row[0]), x); return
                for j, l in enumerate(labels):
                    if not close(row[1 + j], fns[l][idx](x), 1e-12, 1e-14): rep.dev(name, case, '%s %s[%d]=%r' % (nm, l, i, row[1 + j]), fns[l][idx](x)); return
            rep.ok(n_)

def check_case(rep, case, name):
    try:
        r = case['route']
        if r.startswith('gulp'): check_gulp(rep, case, name)
        elif r == 'adp': check_adp(rep, case, name)
        elif r == 'funcfl': check_funcfl(rep, case, name)
        else: check_excel(rep, case, name)
    except Exception as e:
        import traceback
        rep.dev(name, case, 'exception %r %s' % (e, traceback.format_exc()[-300:]), 'a table')

def gen_case(rng):
    r = rng.choice(['gulp_class', 'gulp_writePotentials', 'adp', 'funcfl', 'excel_pair', 'excel_eam'])
    if r.startswith('gulp'):
        return dict(route=r, cutoff=rng.choice([1.0, 6.5, 10.0, round(rng.uniform(0.5, 15), 2)]), nr=rng.choice([2, 3, 5, 11, 100, rng.randint(2, 150)]),
                    pots=[dict(A=rng.choice(LABELS), B=rng.choice(LABELS), fn=rand_callable_spec(rng)) for _ in range(rng.randint(1, 3))])
    m = mk_eam_model(rng)
    if r == 'adp':
        labels = [e['species'] for e in m['elements']]
        return dict(route=r, model=m, dipoles=mk_pair_model(rng, labels), quadrupoles=mk_pair_model(rng, labels))
    if r == 'funcfl':
        return dict(route=r, model=m, dr=round(rng.uniform(0.01, 0.5), 3), drho=round(rng.uniform(0.01, 2), 3),
                    pair=dict(kind='exp', A=round(rng.uniform(1, 500), 2), b=round(rng.uniform(0.5, 3), 2)))
    if not m['pairs']: m['pairs'] = [dict(A=m['elements'][0]['species'], B=m['elements'][0]['species'], fn=rand_callable_spec(rng))]
    return dict(route=r, model=m)

if __name__ == '__main__':
    pl = payload(); rep = Report('C19')
    if pl.get('mode') == 'replay': rep.case('replay', pl['input']); check_case(rep, pl['input'], 'replay')
    else:
        rng = random.Random(pl.get('seed', 0))
        # the spreadsheet targets after a failed first attempt (retry on the same object), each route twice per run
        r2 = random.Random(7 + pl.get('seed', 0))
        for j, route in enumerate(['excel_pair', 'excel_eam', 'excel_pair', 'excel_eam']):
            m = mk_eam_model(r2)
            if not m['pairs']: m['pairs'] = [dict(A=m['elements'][0]['species'], B=m['elements'][0]['species'], fn=rand_callable_spec(r2))]
            c = dict(route=route, model=m, after_failure=True); rep.case(route + '/after-failure', c); check_case(rep, c, 'after-failure-%d' % j)
        for i in range(pl.get('n', 60)):
            c = gen_case(rng); rep.case(c['route'], c); check_case(rep, c, 'seeded-%d' % i)
    rep.finish()

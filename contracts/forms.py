"""Specification of the built-in potential forms, transcribed from docs/reference/potential_forms.rst
(formula and 'potable signature' = parameter order).  C06: code == these terms; C07: deriv/deriv2 of the code."""
import sympy as sp
from pyvc.symalg import R, sym

F = 'atsim/potentials/potentialfunctions.py'
r = R
def S(*names, **kw): return [sym(n, **kw) for n in names]

def _tt(A, b, C6, C8, C10):
    """Tang-Toennies, N = 5, in atomic units composed with the unit conversion stated in the source docstring:
    r[bohr] = r/0.5292, energy[eV] = 27.211 * E[hartree]"""
    x = r / sp.Rational('0.5292')
    def f2n(y, n): return 1 - sp.exp(-y) * sum(y ** k / sp.factorial(k) for k in range(2 * n + 1))
    return sp.Rational('27.211') * (A * sp.exp(-b * x) - (f2n(b * x, 3) * C6 / x ** 6 + f2n(b * x, 4) * C8 / x ** 8 + f2n(b * x, 5) * C10 / x ** 10))

def _zbl(z1, z2):
    """universal ZBL screening function with the in-source constants (the manual's formula is ill-formed: Z1/Z2 without 1/r,
    undefined S(r), and a different fit; see DESIGN §4 C06)"""
    a = (sp.Rational('0.8854') * sp.Rational('0.529')) / (z1 ** sp.Rational(23, 100) + z2 ** sp.Rational(23, 100))
    ck = [sp.Rational(x) for x in ('0.1818', '0.5099', '0.2802', '0.02817')]
    bk = [sp.Rational(x) for x in ('3.2', '0.9423', '0.4029', '0.2016')]
    return sp.Rational('14.39942') * z1 * z2 / r * sum(c * sp.exp(-b * r / a) for c, b in zip(ck, bk))

# class name -> (documented parameter order, documented formula as a function of those parameters)
FORMS = {
    '_bornmayer':   (S('A', 'rho'),              lambda A, rho: A * sp.exp(-r / rho)),
    '_buck':        (S('A', 'rho', 'C'),         lambda A, rho, C: A * sp.exp(-r / rho) - C / r ** 6),
    '_constant':    (S('constant'),              lambda C: C),
    '_coul':        (S('qi', 'qj'),              lambda qi, qj: qi * qj / (4 * sp.pi * sp.Rational('0.0055264') * r)),
    '_exponential': (S('A', 'n'),                lambda A, n: A * r ** n),
    '_exp_spline':  (S('B0', 'B1', 'B2', 'B3', 'B4', 'B5', 'C'), lambda B0, B1, B2, B3, B4, B5, C: sp.exp(B0 + B1 * r + B2 * r ** 2 + B3 * r ** 3 + B4 * r ** 4 + B5 * r ** 5) + C),
    '_hbnd':        (S('A', 'B'),                lambda A, B: A / r ** 12 - B / r ** 10),
    '_lj':          (S('epsilon', 'sigma'),      lambda e, s: 4 * e * (s ** 12 / r ** 12 - s ** 6 / r ** 6)),
    '_morse':       (S('gamma', 'r_star', 'D'),  lambda g, rs, D: D * (sp.exp(-2 * g * (r - rs)) - 2 * sp.exp(-g * (r - rs)))),
    '_sqrt':        (S('G'),                     lambda G: G * sp.sqrt(r)),
    '_tang_toennies': (S('A', 'b', 'C_6', 'C_8', 'C_10'), _tt),
    '_zbl':         (S('z1', 'z2', positive=True), _zbl),
    '_zero':        ([],                         lambda: sp.Integer(0)),
}
# potentialfunctions instance name -> class (read from the module constants at run time, this table is only the expected set)
EXPECTED_NAMES = {'bornmayer', 'buck', 'constant', 'coul', 'exponential', 'exp_spline', 'hbnd', 'lj', 'morse', 'polynomial', 'sqrt', 'tang_toennies', 'zbl', 'zero'}
DOMAIN = {'r': (0.4, 6.0), 'rho': (0.15, 0.6), 'A': (1.0, 2000.0), 'z1': (1, 92), 'z2': (1, 92), 'n': (-6.0, 6.0), 'b': (0.5, 3.0),
          'B3': (-0.3, 0.3), 'B4': (-0.05, 0.05), 'B5': (-0.01, 0.01), 'sigma': (0.5, 3.5)}

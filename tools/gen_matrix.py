"""usage: gen_matrix.py <seed_matrix.log>  -> seeded/MATRIX.md   (one row per confirmed seeded change, from the log of tools/seed_matrix.sh)"""
import sys, json, os, re
log = sys.argv[1] if len(sys.argv) > 1 else '/verif/.scratch/seed_matrix.log'
rows = []
for l in open(log):
    m = re.match(r'(C\d+_\w) exit=(\d+) violations=(\d+) \(without-input=(\d+)\) undecided=(\d+) checker-errors=(\d+) first=(.*)', l.strip())
    if not m:
        if l.strip(): rows.append((l.split()[0], None))
        continue
    rows.append((m.group(1), dict(exit=int(m.group(2)), v=int(m.group(3)), nf=int(m.group(4)), und=int(m.group(5)), err=int(m.group(6)), first=m.group(7))))
out = ['# Seeded changes against the quick checks', '',
       'One row per confirmed seeded change (`seeded/<id>/`): the quick check of the property the change was written for, run with the change applied to `/repo` (`tools/seed_matrix.sh`, table made by `tools/gen_matrix.py`).',
       '`reported by`: **obligation** = a named proof obligation that is discharged on the unchanged tree failed; **oracle** = the concrete oracle (bounded stand-in) found a deviating input on the real code; `(+engine rejects)` = the changed function left the handled subset or its contract (checker error), `(+undecided)` = some obligation could no longer be decided; in both cases only the oracle could speak for that part.',
       'Variants a, b: first round of seeding; c, d: second round; e, f: third round; g, h: fourth round; i, j: fifth round (DESIGN 9.5, 9.8); k, l: sixth round; m, n: seventh round (DESIGN 9.9).',
       'All rows are from ONE full run of `tools/seed_matrix_wt.sh` (scratch worktrees, `ATSIM_ROOT`) on the tree repaired by b38f573 with the checks of the fifth build round; C11_e and the seventh-round rows were run after the last oracle changes of that round.', '',
       '| seed | what it changes (from the agent\'s notes) | exit | reported by | first report |', '|---|---|---|---|---|']
n_ok = 0
# changes whose effect is another property's subject: reported by that property's check (runs recorded in DESIGN 9.9)
CROSS = {'C01_k': 'C10 (oracle) and C07 (oracle, spline cases)'}
for sid, r in rows:
    meta = json.load(open('/verif/seeded/%s/meta.json' % sid)) if os.path.exists('/verif/seeded/%s/meta.json' % sid) else {}
    summ = (meta.get('summary') or '').replace('|', '/').replace('\n', ' ')[:150]
    if r is None: out.append('| %s | %s | - | NOT RUN (patch does not apply) | |' % (sid, summ)); continue
    by = 'oracle' if r['first'].startswith('oracle') else 'obligation'
    if r['nf'] and r['nf'] == r['v']: by += ', no failing input found'
    if r['err']: by += ' (+engine rejects)'
    if r['und']: by += ' (+undecided)'
    if r['v'] == 0 and sid in CROSS: by = 'the check of %s (this property\'s own check is silent: see DESIGN 9.9)' % CROSS[sid]; n_ok += 1
    elif r['v'] == 0: by = 'MISSED' + (' (undecided only)' if r['und'] else ' (checker error only)' if r['err'] else '')
    else: n_ok += 1
    out.append('| %s | %s | %d | %s | `%s` |' % (sid, summ, r['exit'], by, r['first'][:90]))
out += ['', '%d of %d seeded changes are reported as violations.' % (n_ok, len(rows))]
open('/verif/seeded/MATRIX.md', 'w').write('\n'.join(out) + '\n')
print(out[-1])

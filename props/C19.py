"""C19 — GULP, ADP, funcfl and Excel targets carry the same functions on the same grids."""
import z3
from pyvc.core import *
from pyvc.solve import Obligation
from pyvc import tables
import contracts.common as K
import contracts.potential, contracts.lammps_table, contracts.dlpoly_table
import contracts.pair_tabulation as PT
import contracts.gulp as GU
from contracts.eam_common import *
import contracts.setfl as SF
import contracts.eam_tabulation as ET
import contracts.funcfl as FF
import contracts.excel as XS
from pyvc.symexec import sqrt_fn

FUNCTIONS = [(PT.FILE, 'GULP_PairTabulation._write_pot'), (PT.FILE, 'GULP_PairTabulation.write'), (PT.FILE, 'GULP_PairTabulation.__init__'),
             (PT.F_INIT, 'writePotentials'), (SF.FILE, '_writeSetFLPairPots'), (SF.FILE, 'writeSetFL'), (ET.FILE, 'ADP_EAMTabulation.write'),
             (FF.FILE, '_writeHeader'), (FF.FILE, '_writeValueBlock'), (FF.FILE, 'writeFuncFL'),
             (XS.FILE, 'Excel_PairTabulation._populate_worksheet'), (XS.F_PT, '_r_value_iterator'), (XS.F_ET, '_rho_value_iterator'),
             (XS.F_ET, 'Excel_EAMTabulation._add_eam_embed'), (XS.F_ET, 'Excel_EAMTabulation._add_eam_density'),
             (XS.F_ET, 'Excel_FinnisSinclair_EAMTabulation._add_eam_density'), (XS.F_PT, 'Excel_PairTabulation._add_pair_worksheet'), (XS.F_PT, '_r_value_iterator@pair'),
             (XS.F_PT, 'Excel_PairTabulation._build_workbook')]
SPECSEQS = [GU.grows, FF.grid, FF.fcol, FF.ch1, FF.ch2, FF.ch3, XS.grid_seq]

def lemmas():
    out = []
    p = z3.Const('p', K.Pot); c = z3.Real('cutoff'); nr, i, k = z3.Ints('nr i k')
    ps = z3.Const('ps', PotList); a, b = z3.Strings('a b'); dr = z3.Real('dr')
    def L(name, hyps, goal, depth=1):
        out.append(Obligation('C19/lemma/' + name, hyps, goal, kind='lemma', function='props/C19.py', carries_property=True, unfold_depth=depth))
    L('gulp-exactly-nr-rows', [nr >= 2], z3.Length(GU.grows(p, c, nr, nr)) == 4 * nr)
    L('gulp-row-i', [nr >= 2, i >= 0, i < nr, GU.grows.nth_instance([p, c, nr], nr, i)],
      z3.SubSeq(GU.grows(p, c, nr, nr), 4 * i, 4) == tok("{:.10f} {:.10f}\n", K.E(p, real(i) * c / (real(nr) - 1)), real(i) * c / (real(nr) - 1)))
    L('gulp-block-head', [], z3.PrefixOf(cat(lit_doc("spline cubic\n"), tok("{} {} {}\n", K.pot_A(p), K.pot_B(p), c)), GU.gblock(p, c, nr)))
    # ADP: dipole/quadrupole values are unscaled (u(r), w(r), not r*u(r)), zero where undeclared
    L('adp-values-unscaled', [k >= 0], SF.pval(ps, a, b, dr, z3.BoolVal(False), k) == cat(tok(SF.NUM, phi(ps, a, b, real(k) * dr)), NL))
    L('adp-zero-when-undeclared', [find(ps, smin(a, b), smax(a, b), z3.Length(ps)) < 0, k >= 0],
      SF.pval(ps, a, b, dr, z3.BoolVal(False), k) == cat(tok(SF.NUM, z3.RealVal(0)), NL))
    # funcfl: the effective charge squared and converted back (x 27.2 x 0.529 / r) is the pair potential; the header declares the grid
    e = z3.Const('e', EAM['sort']); nrho = z3.Int('nrho'); drho = z3.Real('drho'); title = z3.String('title')
    rk = real(k) * dr; zc = FF.zcharge(p, dr, k); x = FF._conv(FF._es(p, dr, k))
    L('funcfl-charge-squared-converts-back-to-phi', [k >= 1, dr > 0, x >= 0, zc >= 0, zc * zc == x],       # the three facts are math.sqrt's contract
      zc * zc * z3.RealVal('27.2') * z3.RealVal('0.529') / rk == K.E(p, rk))
    L('funcfl-header-declares-the-grid', [], z3.PrefixOf(cat(tok("%s", title), NL, tok("%d %f %f %s", EAM['Z'](e), EAM['mass'](e), EAM['a0'](e), EAM['lattice'](e)), NL,
                                                               tok("%d %f %d %f %f", nrho, drho, nr, dr, dr * real(nr - 1)), NL),
                                                          FF.funcfl_doc(e, p, nrho, drho, nr, dr, title)))
    vals = FF.funcfl_values(e, p, nrho, drho, nr, dr)
    L('funcfl-nrho-embedding-values-then-nr-charges-then-nr-densities', [nrho >= 0, nr >= 0], z3.Length(vals) == nrho + nr + nr + 2)
    L('funcfl-embedding-value-k', [nrho >= 0, nr >= 0, k >= 0, k < nrho, FF.fcol.nth_instance([EAM['embed'](e), drho], nrho, k)], vals[k] == Val.VR(app(EAM['embed'](e), real(k) * drho)))
    L('funcfl-charge-k', [nrho >= 0, nr >= 0, k >= 0, k < nr, FF.ch3.nth_instance([p, dr], nr, k)], vals[nrho + 1 + k] == Val.VR(zc))
    L('funcfl-density-k', [nrho >= 0, nr >= 0, k >= 0, k < nr, FF.fcol.nth_instance([EAM['dens'](e), dr], nr, k)], vals[nrho + nr + 2 + k] == Val.VR(app(EAM['dens'](e), rk)))
    L('funcfl-a-number-is-written-as-itself', [k >= 0, z3.Not(Val.is_VN(vals[k]))], z3.PrefixOf(tok(FF.NUMT, vals[k]), FF.piece(vals, k)))
    return out + tables.routing_obligations('C19', ['GULP', 'eam_adp', 'excel', 'excel_eam', 'excel_eam_fs'])

MUTANTS = [
    (FF.FILE, 'writeFuncFL', "float(x) * drho for x in range(nrho)", "float(x + 1) * drho for x in range(nrho)", 'comprehension/0'),
    (FF.FILE, 'writeFuncFL', "pairpot.energy(sep) * sep for sep", "pairpot.energy(sep) for sep", 'comprehension/4'),
    (FF.FILE, 'writeFuncFL', "1.0 / 27.2 * 1.0 / 0.529", "1.0 / 27.2116 * 1.0 / 0.529", 'comprehension/5'),
    (FF.FILE, 'writeFuncFL', "valuelist.extend(charges)\n    valuelist.extend(densities)", "valuelist.extend(densities)\n    valuelist.extend(charges)", 'post'),
    (FF.FILE, 'writeFuncFL', "cutoff = dr * (nr - 1)", "cutoff = dr * nr", 'post'),
    (FF.FILE, 'writeFuncFL', "eampot.electronDensityFunction(sep) for sep in separations", "eampot.electronDensityFunction(sep) for sep in rhos", 'comprehension/3'),
    (FF.FILE, '_writeHeader', "(nrho, drho, nr, dr, cutoff)", "(nr, drho, nrho, dr, cutoff)", 'post'),
    (FF.FILE, '_writeValueBlock', "if i % 5 == 0:", "if i % 4 == 0:", 'preserve/0'),
    (FF.FILE, '_writeValueBlock', "if value == None:", "if value != None:", 'preserve/0'),
    (PT.FILE, 'GULP_PairTabulation._write_pot', "sepn=r, energy=energy", "sepn=energy, energy=r", 'preserve/0'),
    (PT.FILE, 'GULP_PairTabulation._write_pot', "cutoff=self.cutoff", "cutoff=self.nr", 'init/0'),
    (ET.FILE, 'ADP_EAMTabulation.write', "self._write_dipole(sbuild)\n    self._write_quadrupole(sbuild)", "self._write_quadrupole(sbuild)\n    self._write_dipole(sbuild)", 'post'),
    (SF.FILE, '_writeSetFLPairPots', "if scale_r:", "if True:", 'preserve/3'),
    (XS.FILE, 'Excel_PairTabulation._populate_worksheet', "pot = column_dict[label]", "pot = column_dict[column_keys[0]]", 'preserve/2'),
    (XS.FILE, 'Excel_PairTabulation._populate_worksheet', "r_idx += 2", "r_idx += 1", 'preserve/2'),
    (XS.FILE, 'Excel_PairTabulation._populate_worksheet', "col[0].value = pot(r)", "col[0].value = pot(r_idx)", 'preserve/2'),
    (XS.FILE, 'Excel_PairTabulation._populate_worksheet', "ws.cell(r_idx, 1, value=r)", "ws.cell(r_idx, 1, value=r_idx)", 'init/2'),
    (XS.F_ET, '_rho_value_iterator', "range(tabulation.nrho)", "range(tabulation.nrho + 1)", 'post'),
    (XS.F_PT, '_r_value_iterator', "float(tabulation.nr) - 1", "float(tabulation.nr)", 'preserve/0'),
    (XS.F_ET, 'Excel_EAMTabulation._add_eam_embed', "v = p.embeddingFunction", "v = p.electronDensityFunction", 'preserve/0'),
    (XS.F_ET, 'Excel_EAMTabulation._add_eam_embed', "_rho_value_iterator(self)", "_r_value_iterator(self)", 'post'),
    (XS.F_ET, 'Excel_EAMTabulation._add_eam_density', "pot_dict[k] = v", "pot_dict.setdefault(k, v)", 'preserve/0'),
    (XS.F_ET, 'Excel_EAMTabulation._add_eam_density', "wb.create_sheet('EAM-Density')", "wb.create_sheet('EAM-Embed')", 'post'),
    (XS.F_PT, 'Excel_PairTabulation._add_pair_worksheet', "sorted([p.speciesA, p.speciesB])", "[p.speciesA, p.speciesB]", 'preserve/0'),
    (XS.F_PT, 'Excel_PairTabulation._add_pair_worksheet', "pot_dict[k] = v", "pot_dict.setdefault(k, v)", 'preserve/0'),
    (XS.F_PT, 'Excel_PairTabulation._build_workbook', "wb.remove(wb.active)", "self._workbook = wb\n    wb.remove(wb.active)", 'on-raise'),
]
ASSUMPTIONS = ['A1: float as real', 'A7: GULP "spline cubic" library format; LAMMPS pair_style adp layout (u blocks then w blocks, lower triangle, unscaled)', 'A6: openpyxl cell model (contracts/excel.py: ws["A1"], ws.cell, iter_cols over one row, cell.value writing through to its sheet)']
BOUNDED = [dict(name='the Excel sheets as whole workbooks: the assembly of the workbook from the verified sheets (_add_sheets, _build_workbook, the lazily built workbook property), saving and re-reading with openpyxl (and funcfl on the real code as a cross-check)', bound='seeded models, quick 60 / thorough 1500 cases',
                technique='concrete oracle on the real code')]
NOTES = ['ADP_EAMTabulationFactory._extract_pots (dipole/quadrupole sections read like [Pair]) is exercised through C09/C16 contracts, not here']

def oracle_payload(tier, seed, mode='search'): return dict(mode=mode, seed=seed, n=60 if tier == 'quick' else 1500)
def witness_for(ob, devs, run_oracle):
    if devs: d = devs[0]; return dict(deviates=True, input=d['input'], observed=d['observed'], expected=d['expected'])
    return dict(deviates=False)
